--------------------------- MODULE AbyDb ---------------------------
(* Contract of the database directory, named maps, key types and handles (C11, C13, C02):     *)
(*   filedb/mod.rs  db_map_<type>[_with_params]: look up the registry of that key type, else   *)
(*                  open-or-create the three files <name>.{htx,key,val}                        *)
(*   inner/mod.rs   five registries name -> handle, one per key type                           *)
(*   key.rs/val.rs/htx.rs  check_*_header: the files must carry the signature of the type      *)
(* dir:  name -> [sig, content]   what is on disk;  reg: key type -> set of names opened       *)
(* through that registry;  hnd: handle -> [name, kt].                                          *)
EXTENDS Integers, FiniteSets, TLC

CONSTANTS Names, Types, Handles, Keys, Vals,
          SigOf            \* key type -> type signature written to / required from the files

VARIABLES dir, reg, hnd, lastop
vars == <<dir, reg, hnd, lastop>>

Init == dir = <<>> /\ reg = [t \in Types |-> {}] /\ hnd = <<>> /\ lastop = <<"init">>

\* db_map_<t>(name) through any (cloned) database handle
GetMap(h, t, nm) ==
    /\ h \notin DOMAIN hnd
    /\ IF nm \in reg[t]
       THEN \* registry hit: a clone of the existing handle, parameters ignored
            /\ hnd' = (h :> [name |-> nm, kt |-> t]) @@ hnd
            /\ lastop' = <<"alias", h, nm>> /\ UNCHANGED <<dir, reg>>
       ELSE IF nm \in DOMAIN dir
       THEN IF dir[nm].sig = SigOf[t]
            THEN /\ reg' = [reg EXCEPT ![t] = @ \cup {nm}]
                 /\ hnd' = (h :> [name |-> nm, kt |-> t]) @@ hnd
                 /\ lastop' = <<"open", h, nm, t>> /\ UNCHANGED dir
            ELSE \* foreign signature: refused (assert!), nothing changes
                 /\ lastop' = <<"refused", h, nm, t>> /\ UNCHANGED <<dir, reg, hnd>>
       ELSE /\ dir' = (nm :> [sig |-> SigOf[t], kt |-> t, content |-> <<>>]) @@ dir
            /\ reg' = [reg EXCEPT ![t] = @ \cup {nm}]
            /\ hnd' = (h :> [name |-> nm, kt |-> t]) @@ hnd
            /\ lastop' = <<"create", h, nm, t>>
CloneHandle(h, g) ==
    /\ g \in DOMAIN hnd /\ h \notin DOMAIN hnd
    /\ hnd' = (h :> hnd[g]) @@ hnd /\ lastop' = <<"clone", h, g>> /\ UNCHANGED <<dir, reg>>
Put(h, k, v) ==
    /\ h \in DOMAIN hnd
    /\ dir' = [dir EXCEPT ![hnd[h].name].content = (k :> v) @@ @]
    /\ lastop' = <<"put", h, hnd[h].name>> /\ UNCHANGED <<reg, hnd>>
Del(h, k) ==
    /\ h \in DOMAIN hnd
    /\ dir' = [dir EXCEPT ![hnd[h].name].content = [x \in (DOMAIN @) \ {k} |-> @[x]]]
    /\ lastop' = <<"del", h, hnd[h].name>> /\ UNCHANGED <<reg, hnd>>
\* every handle and the database handle dropped; the directory stays (C02)
DropAll == /\ hnd' = <<>> /\ reg' = [t \in Types |-> {}] /\ lastop' = <<"dropall">> /\ UNCHANGED dir

Next == \/ \E h \in Handles, t \in Types, nm \in Names : GetMap(h, t, nm)
        \/ \E h, g \in Handles : CloneHandle(h, g)
        \/ \E h \in Handles, k \in Keys, v \in Vals : Put(h, k, v)
        \/ \E h \in Handles, k \in Keys : Del(h, k)
        \/ DropAll
Spec == Init /\ [][Next]_vars

\* what handle h observes
View(h) == dir[hnd[h].name].content

(* C11: handles to the same name alias one state (by construction: the state is per name); an      *)
(* update through a handle changes the map of that handle's name only                               *)
Isolation == [][\A nm \in DOMAIN dir : (nm \in DOMAIN dir' /\ dir'[nm] # dir[nm]) => (lastop'[1] \in {"put", "del"} /\ lastop'[3] = nm)]_vars
Aliasing  == \A h, g \in DOMAIN hnd : hnd[h].name = hnd[g].name => View(h) = View(g)
(* C13: a handle of key type t exists only on files created for t; a refused open changes nothing  *)
TypeSafe  == \A h \in DOMAIN hnd : dir[hnd[h].name].kt = hnd[h].kt
Refusal   == [][lastop'[1] = "refused" => (dir' = dir /\ hnd' = hnd /\ reg' = reg)]_vars
(* C02: reopening after DropAll finds the contents (the directory is untouched by DropAll)         *)
CloseKeeps == [][lastop'[1] = "dropall" => dir' = dir]_vars
=============================================================================
