--------------------------- MODULE AbyBulk ---------------------------
(* The bulk calls as lib.rs:105-268 computes them: the batch is sorted by key in DESCENDING      *)
(* order and then consumed by pop(), i.e. in ascending key order; results are brought back into  *)
(* batch order through the saved index.  bulk_put uses a stable sort, so among equal keys the    *)
(* batch order is preserved in the vector and REVERSED by pop(): the FIRST occurrence is applied  *)
(* last.  bulk_get / bulk_delete use an unstable sort: among equal keys the order is unspecified. *)
EXTENDS Integers, Sequences, SequencesExt, FiniteSets, TLC
M == INSTANCE AbyMap

\* indices of the batch in the order the code processes them: ascending key; among equal keys the
\* later batch position first (stable descending sort + pop)
ProcOrder(keys) == SortSeq([i \in 1..Len(keys) |-> i],
                           LAMBDA a, b : keys[a] < keys[b] \/ (keys[a] = keys[b] /\ a > b))
RECURSIVE ApplyPuts(_, _, _, _)
ApplyPuts(m, ord, keys, vals) == IF ord = <<>> THEN m
    ELSE ApplyPuts(M!MPut(m, keys[Head(ord)], vals[Head(ord)]), Tail(ord), keys, vals)
BulkPut(m, keys, vals) == ApplyPuts(m, ProcOrder(keys), keys, vals)
\* <<map', results in batch order>>
RECURSIVE ApplyDels(_, _, _, _)
ApplyDels(m, ord, keys, res) == IF ord = <<>> THEN <<m, res>>
    ELSE LET d == M!MDel(m, keys[Head(ord)]) IN ApplyDels(d[1], Tail(ord), keys, [res EXCEPT ![Head(ord)] = d[2]])
BulkDel(m, keys) == ApplyDels(m, ProcOrder(keys), keys, [i \in 1..Len(keys) |-> 0])
BulkGet(m, keys) == [i \in 1..Len(keys) |-> M!MGet(m, keys[i])]
PutFromIter(m, keys, vals) == M!MPutAll(m, [i \in 1..Len(keys) |-> <<keys[i], vals[i]>>])
=============================================================================
