SPECIFICATION Spec
CONSTANTS
  N = 256
  MaxOcc = 2
  Fixed = TRUE
  AllSubsets = FALSE
INVARIANT ScanOK
CHECK_DEADLOCK FALSE
