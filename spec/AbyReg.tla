--------------------------- MODULE AbyReg ---------------------------
(* Design layer under AbyDb (C11, C13, C02, C03): WHY handles alias.  AbyDb states the contract   *)
(* with one state per map name, so aliasing holds there by construction; the code has buffered     *)
(* INSTANCES (FileDbXxxInner: three files behind their own chunk caches), five registries          *)
(* name -> instance (one per key type, filedb/inner/mod.rs), and handles that are Rc clones of an   *)
(* instance.  Two instances over the same three files would each see their own buffered updates     *)
(* and overwrite each other's chunks on flush - the contract holds because the lookup discipline    *)
(* never creates a second instance:                                                                *)
(*   db_map_<t>[_with_params](name): registry of t hit -> clone of that instance (parameters        *)
(*   ignored); else open-or-create the files; an existing file must carry the signature of t.       *)
(* A second instance of a name could only come from the registry of ANOTHER type, and then the      *)
(* signature check refuses - provided the signatures of the key types are distinct (finding D8:     *)
(* u64 and vu64 share one, and MCReg_d8 shows the second instance).                                 *)
EXTENDS Integers, FiniteSets, TLC

CONSTANTS Names, Types, Handles, Keys, Vals, MaxInst,
          SigOf,           \* key type -> type signature
          AlwaysLookup     \* TRUE: every getter consults its registry first (the code); FALSE: the
                           \* *_with_params getters open the files without looking (a seeded defect class)

VARIABLES disk,    \* name -> [sig, content]        the files
          inst,    \* instance id -> [name, kt, content, dirty]   buffered view of one open of the files
          reg,     \* key type -> (name -> instance id)
          hnd,     \* handle -> instance id
          nid,     \* next instance id
          lastop
vars == <<disk, inst, reg, hnd, nid, lastop>>

\* f extended (or overwritten) at a by v, written out (instead of (a :> v) @@ f) so that the proofs need no library facts
Ext(f, a, v) == [x \in (DOMAIN f) \cup {a} |-> IF x = a THEN v ELSE f[x]]

Init == disk = <<>> /\ inst = <<>> /\ reg = [t \in Types |-> <<>>] /\ hnd = <<>> /\ nid = 1 /\ lastop = <<"init">>

NewId == nid

\* open-or-create: a new buffered instance over the files of nm (reads what is ON DISK now)
OpenFiles(h, t, nm) ==
    IF nm \in DOMAIN disk
    THEN IF disk[nm].sig = SigOf[t]
         THEN /\ inst' = Ext(inst, NewId, [name |-> nm, kt |-> t, content |-> disk[nm].content, dirty |-> FALSE])
              /\ reg' = [reg EXCEPT ![t] = Ext(reg[t], nm, NewId)]
              /\ hnd' = Ext(hnd, h, NewId)
              /\ nid' = nid + 1
              /\ lastop' = <<"open", h, nm, t>> /\ UNCHANGED disk
         ELSE /\ lastop' = <<"refused", h, nm, t>> /\ UNCHANGED <<disk, inst, reg, hnd, nid>>
    ELSE /\ disk' = Ext(disk, nm, [sig |-> SigOf[t], kt |-> t, content |-> <<>>])
         /\ inst' = Ext(inst, NewId, [name |-> nm, kt |-> t, content |-> <<>>, dirty |-> FALSE])
         /\ reg' = [reg EXCEPT ![t] = Ext(reg[t], nm, NewId)]
         /\ hnd' = Ext(hnd, h, NewId)
         /\ nid' = nid + 1
         /\ lastop' = <<"create", h, nm, t>>

GetMap(h, t, nm, withParams) ==
    /\ h \notin DOMAIN hnd /\ nid <= MaxInst
    /\ IF nm \in DOMAIN reg[t] /\ (AlwaysLookup \/ ~withParams)
       THEN /\ hnd' = Ext(hnd, h, reg[t][nm])
            /\ lastop' = <<"alias", h, nm, t>> /\ UNCHANGED <<disk, inst, reg, nid>>
       ELSE OpenFiles(h, t, nm)

CloneHandle(h, g) ==
    /\ g \in DOMAIN hnd /\ h \notin DOMAIN hnd
    /\ hnd' = Ext(hnd, h, hnd[g]) /\ lastop' = <<"clone", h, g>> /\ UNCHANGED <<disk, inst, reg, nid>>

Put(h, k, v) ==
    /\ h \in DOMAIN hnd
    /\ inst' = [i \in DOMAIN inst |-> IF i = hnd[h]
                                      THEN [name |-> inst[i].name, kt |-> inst[i].kt, content |-> Ext(inst[i].content, k, v), dirty |-> TRUE]
                                      ELSE inst[i]]
    /\ lastop' = <<"put", h, inst[hnd[h]].name>> /\ UNCHANGED <<disk, reg, hnd, nid>>
Del(h, k) ==
    /\ h \in DOMAIN hnd
    /\ inst' = [i \in DOMAIN inst |-> IF i = hnd[h]
                                      THEN [name |-> inst[i].name, kt |-> inst[i].kt,
                                            content |-> [x \in (DOMAIN inst[i].content) \ {k} |-> inst[i].content[x]], dirty |-> TRUE]
                                      ELSE inst[i]]
    /\ lastop' = <<"del", h, inst[hnd[h]].name>> /\ UNCHANGED <<disk, reg, hnd, nid>>

\* flush through a handle: the instance's view goes to the files
Flush(h) ==
    /\ h \in DOMAIN hnd
    /\ LET i == hnd[h] IN
       /\ disk' = [nm \in DOMAIN disk |-> IF inst[i].dirty /\ nm = inst[i].name
                                           THEN [sig |-> disk[nm].sig, kt |-> disk[nm].kt, content |-> inst[i].content]
                                           ELSE disk[nm]]
       /\ inst' = [j \in DOMAIN inst |-> IF j = i THEN [name |-> inst[j].name, kt |-> inst[j].kt, content |-> inst[j].content, dirty |-> FALSE]
                                                  ELSE inst[j]]
    /\ lastop' = <<"flush", h, inst[hnd[h]].name>> /\ UNCHANGED <<reg, hnd, nid>>

\* FileDb::sync_all: every REGISTERED instance is flushed (an instance that fell out of its registry is not)
SyncDb ==
    /\ LET regd == {i \in DOMAIN inst : \E t \in Types : \E nm \in DOMAIN reg[t] : reg[t][nm] = i}
       IN /\ disk' = [nm \in DOMAIN disk |->
                        IF \E i \in regd : inst[i].name = nm /\ inst[i].dirty
                        THEN [sig |-> disk[nm].sig, kt |-> disk[nm].kt,
                              content |-> inst[CHOOSE i \in regd : inst[i].name = nm /\ inst[i].dirty].content]
                        ELSE disk[nm]]
          /\ inst' = [i \in DOMAIN inst |-> IF i \in regd THEN [name |-> inst[i].name, kt |-> inst[i].kt, content |-> inst[i].content, dirty |-> FALSE]
                                                           ELSE inst[i]]
    /\ lastop' = <<"syncdb">> /\ UNCHANGED <<reg, hnd, nid>>

\* the database and every handle are dropped (end of a session): each instance's file buffers flush on drop
\* (rabuf Drop, AbyBuf.Drop); with two dirty instances over one name the files keep whichever dropped last
DropAll ==
    /\ inst # <<>>
    /\ \E pick \in [DOMAIN disk -> (DOMAIN inst) \cup {0}] :
          /\ \A nm \in DOMAIN disk :
                IF \E i \in DOMAIN inst : inst[i].name = nm /\ inst[i].dirty
                THEN pick[nm] \in DOMAIN inst /\ inst[pick[nm]].name = nm /\ inst[pick[nm]].dirty
                ELSE pick[nm] = 0
          /\ disk' = [nm \in DOMAIN disk |-> IF pick[nm] = 0 THEN disk[nm]
                                                 ELSE [sig |-> disk[nm].sig, kt |-> disk[nm].kt, content |-> inst[pick[nm]].content]]
    /\ inst' = <<>> /\ reg' = [t \in Types |-> <<>>] /\ hnd' = <<>>
    /\ lastop' = <<"dropall">> /\ UNCHANGED nid

Next == \/ \E h \in Handles, t \in Types, nm \in Names, wp \in BOOLEAN : GetMap(h, t, nm, wp)
        \/ \E h, g \in Handles : CloneHandle(h, g)
        \/ \E h \in Handles, k \in Keys, v \in Vals : Put(h, k, v)
        \/ \E h \in Handles, k \in Keys : Del(h, k)
        \/ \E h \in Handles : Flush(h)
        \/ SyncDb
        \/ DropAll
Spec == Init /\ [][Next]_vars

View(h) == inst[hnd[h]].content

(* the design invariant that carries the contract: one buffered instance per name *)
OneInstance == \A i, j \in DOMAIN inst : inst[i].name = inst[j].name => i = j
(* C11: handles of one name observe one state *)
Aliasing == \A h, g \in DOMAIN hnd : inst[hnd[h]].name = inst[hnd[g]].name => View(h) = View(g)
(* C13: an instance of key type t exists only over files created for t *)
TypeSafe == \A i \in DOMAIN inst : disk[inst[i].name].kt = inst[i].kt
(* C03: after a flush through any handle of a name, or a database sync, the files hold what every handle of the name observes *)
FlushDurable == (lastop[1] = "flush" => \A h \in DOMAIN hnd : inst[hnd[h]].name = lastop[3] => disk[lastop[3]].content = View(h))
             /\ (lastop[1] = "syncdb" => \A h \in DOMAIN hnd : disk[inst[hnd[h]].name].content = View(h))
(* C02: what any handle observed at the end of a session is what the files hold afterwards (and so what the next session reads) *)
CloseDurableStep == lastop'[1] = "dropall" => \A h \in DOMAIN hnd : disk'[inst[hnd[h]].name].content = View(h)
CloseDurable == [][CloseDurableStep]_vars
(* C02: a new instance starts from what is on disk *)
OpenReadsDisk == [][lastop'[1] = "open" => inst'[nid].content = disk[lastop'[3]].content]_vars
(* every instance is reachable through its registry (so that the database-level sync reaches it) *)
Registered == \A i \in DOMAIN inst : inst[i].name \in DOMAIN reg[inst[i].kt] /\ reg[inst[i].kt][inst[i].name] = i
=============================================================================
