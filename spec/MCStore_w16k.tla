--------------------------- MODULE MCStore_w16k ---------------------------
(* Seeded configuration for C08: four colliding 10-byte keys (their records exactly fill   *)
(* a 16-byte slot while offsets are small) in bucket 0, then ballast in bucket 1 (a         *)
(* 16300-byte key and value), so that both file ends lie above the 16 KiB offset-width      *)
(* boundary while the colliding records and the slots they free lie below it.  Every value  *)
(* that has to move lands above 16 KiB, its key record outgrows its slot and moves, and     *)
(* rewriting the predecessor's link moves the predecessor too (relink cascade).             *)
EXTENDS MCStore
MC_KLen == (1 :> 10) @@ (2 :> 10) @@ (3 :> 10) @@ (4 :> 16300) @@ (5 :> 10)
MC_VLen == (1 :> 3) @@ (2 :> 20) @@ (3 :> 16300)
MC_KH   == (1 :> 0) @@ (2 :> 0) @@ (3 :> 0) @@ (4 :> 1) @@ (5 :> 0)
\* chain of bucket 0 after the prefix: 5 -> 3 -> 2 -> 1 (newest first); key 5 is never operated on
MC_Prefix == << <<"put", 1, 1>>, <<"put", 2, 1>>, <<"put", 3, 1>>, <<"put", 5, 1>>, <<"put", 4, 3>> >>
=============================================================================
