SPECIFICATION Spec
CONSTANTS
  Names = {"x", "y"}
  Types = {"u64", "vu64"}
  Handles = {1, 2, 3}
  Keys = {1, 2}
  Vals = {1, 2}
  SigOf <- MC_SigCode
INVARIANTS Aliasing TypeSafe
PROPERTIES Isolation Refusal CloseKeeps
CHECK_DEADLOCK FALSE
