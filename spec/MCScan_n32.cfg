SPECIFICATION Spec
CONSTANTS
  N = 32
  MaxOcc = 3
  Fixed = TRUE
  AllSubsets = FALSE
INVARIANT ScanOK
CHECK_DEADLOCK FALSE
