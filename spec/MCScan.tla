--------------------------- MODULE MCScan ---------------------------
(* Exhaustive check of the bitmap scan / iterator (AbyScan) over occupancy patterns (C04):   *)
(* for every set of occupied buckets the iterator yields each occupied bucket's chain exactly *)
(* once, in bucket order, with exact size hints, and stays exhausted afterwards.              *)
(* AllSubsets = TRUE: every subset of 0..N-1 is an initial state (N <= 16).                   *)
(* AllSubsets = FALSE: occupancy sets are built one bucket per step up to MaxOcc buckets.     *)
(* Fixed = FALSE selects the scan of the pinned tree 4b82afd (defects D2, D3): TLC must then  *)
(* report a violation (the model finds the defect).                                           *)
EXTENDS AbyScan, SequencesExt, TLC

CONSTANTS N, MaxOcc, Fixed, AllSubsets
VARIABLE occ

Off1(b) == 192 + 32 * b            \* newest key record of bucket b
Off2(b) == 192 + 32 * b + 16       \* second record (odd buckets have a chain of two)
ChainLen(b) == 1 + (b % 2)
StoreOf(o) ==
    [n |-> N, heads |-> [b \in o |-> Off1(b)], bm |-> o,
     cnt |-> Cardinality(o) + Cardinality({b \in o : b % 2 = 1}),
     kf |-> [slots |-> [x \in {Off1(b) : b \in o} \cup {Off2(b) : b \in {c \in o : c % 2 = 1}} |->
                           [nxt |-> IF \E b \in o : x = Off1(b) /\ b % 2 = 1 THEN x + 16 ELSE 0]]]]
RECURSIVE Flat(_, _)
Flat(bs, i) == IF i > Len(bs) THEN <<>>
               ELSE (IF bs[i] % 2 = 1 THEN <<Off1(bs[i]), Off2(bs[i])>> ELSE <<Off1(bs[i])>>) \o Flat(bs, i + 1)
Expected(o) == Flat(SetToSortSeq(o, LAMBDA a, b : a < b), 1)

Init == IF AllSubsets THEN occ \in SUBSET (0..(N - 1)) ELSE occ = {}
Next == /\ ~AllSubsets /\ Cardinality(occ) < MaxOcc
        /\ \E b \in (0..(N - 1)) \ occ : occ' = occ \cup {b}
Spec == Init /\ [][Next]_occ

ScanOK ==
    LET S  == StoreOf(occ)
        it == IterLoop(S, [rem |-> S.cnt, idx |-> 0, koff |-> 0], <<>>, <<>>, Fixed, 2 * S.cnt + 4)
    IN /\ it.offs = Expected(occ)                                        \* C04.items / C04.count
       /\ it.hints = [i \in 1..(S.cnt + 1) |-> S.cnt - i + 1]             \* C04.hints
       /\ it.fused /\ it.ended                                           \* C04.fused
=============================================================================
