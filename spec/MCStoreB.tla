--------------------------- MODULE MCStoreB ---------------------------
(* C06 on the model: file sizes are bounded by the live set, not by the history.  A history         *)
(* variable records, per file and size class, the peak number of slots that were in use at the same *)
(* time (at operation boundaries); the number of slots of a class never exceeds that peak plus one  *)
(* (the transient of a record that is being moved); for the shared large list the same holds per    *)
(* size threshold.  This is the invariant AbyTrace evaluates on gap-free decoded histories          *)
(* (C06.bound).                                                                                     *)
EXTENDS AbyStore, Sequences

CONSTANTS NB, Keys, Vals
VARIABLES S, peak
vars == <<S, peak>>

UsedIn(F, used, c) == Cardinality({o \in used \cap DOMAIN F.slots : ~IsLarge(F.slots[o].size) /\ ClassIdx(F.slots[o].size) = c})
SlotsIn(F, c) == Cardinality({o \in DOMAIN F.slots : ~IsLarge(F.slots[o].size) /\ ClassIdx(F.slots[o].size) = c})
UsedGE(F, used, z) == Cardinality({o \in used \cap DOMAIN F.slots : F.slots[o].size >= z})
SlotsGE(F, z) == Cardinality({o \in DOMAIN F.slots : F.slots[o].size >= z})
Thresholds == {1024, 1152, 2048, 2176}       \* large slot sizes that occur with the value sizes used
MaxN(a, b) == IF a > b THEN a ELSE b
PeakOf(s) == LET D == Derive(s) IN
    [k |-> [c \in 1..15 |-> UsedIn(s.kf, D.reach, c)], v |-> [c \in 1..15 |-> UsedIn(s.vf, D.rvals, c)],
     vl |-> [z \in Thresholds |-> UsedGE(s.vf, D.rvals, z)]]
Merge(p, q) == [k |-> [c \in 1..15 |-> MaxN(p.k[c], q.k[c])], v |-> [c \in 1..15 |-> MaxN(p.v[c], q.v[c])],
                vl |-> [z \in Thresholds |-> MaxN(p.vl[z], q.vl[z])]]

Init == S = EmptyStore(NB) /\ peak = PeakOf(EmptyStore(NB))
Step(s2) == S' = s2 /\ peak' = Merge(peak, PeakOf(s2))
Next == \/ \E k \in Keys, v \in Vals : Step(Put(S, k, v))
        \/ \E k \in Keys : Step(Del(S, k)[1])
Spec == Init /\ [][Next]_vars

Bound == \A c \in 1..15 : SlotsIn(S.kf, c) <= peak.k[c] + 1 /\ SlotsIn(S.vf, c) <= peak.v[c] + 1
\* The analogous statement per size threshold of the shared large list does NOT hold (TLC finds the
\* counterexample: two 1152-byte values grown to 2048 bytes leave two free 1152-byte slots that no
\* 2048-byte request can use); what holds for the large list is the step conjunct
\* C06.extend_only_if_no_free and the finiteness of the reachable set (MCStore_* have no state constraint).
LargeBoundFalse == \A z \in Thresholds : SlotsGE(S.vf, z) <= peak.vl[z] + 1
\* absolute bound for this alphabet: at most |Keys| live entries, so at most |Keys| + 1 slots per class
FileBound == S.kf.end <= 192 + 24 * 8 /\ S.vf.end <= 192 + 6 * 2176
=============================================================================
