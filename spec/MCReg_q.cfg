SPECIFICATION Spec
CONSTANTS
  Names = {"x", "y"}
  Types = {"string", "bytes", "u64"}
  Handles = {1, 2, 3}
  Keys = {1}
  Vals = {1, 2}
  MaxInst = 4
  SigOf <- MC_SigDistinct
  AlwaysLookup = TRUE
INVARIANTS OneInstance Aliasing TypeSafe FlushDurable Registered
PROPERTIES CloseDurable OpenReadsDisk
CHECK_DEADLOCK FALSE
