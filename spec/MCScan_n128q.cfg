SPECIFICATION Spec
CONSTANTS
  N = 128
  MaxOcc = 2
  Fixed = TRUE
  AllSubsets = FALSE
INVARIANT ScanOK
CHECK_DEADLOCK FALSE
