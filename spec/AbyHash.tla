--------------------------- MODULE AbyHash ---------------------------
(* The placement hash (lib.rs:331-395): `#[derive(Hash)]` on the key newtype feeds MyHasher   *)
(* with the key length as 8 bytes in native (little endian) order and then the key bytes;     *)
(* MyHasher folds its input 8 bytes at a time, each chunk read big endian, through            *)
(*     h = xorshift(h wrapping_add chunk),  xorshift: x ^= x>>12; x ^= x<<25; x ^= x>>27.      *)
(* TLC integers are 32 bit, so a 64-bit word is four 16-bit limbs, w[1] least significant.     *)
EXTENDS Integers, Sequences, Bitwise

WZero == <<0, 0, 0, 0>>
WXor(a, b) == <<a[1] ^^ b[1], a[2] ^^ b[2], a[3] ^^ b[3], a[4] ^^ b[4]>>
WAdd(a, b) == LET s1 == a[1] + b[1]
                  s2 == a[2] + b[2] + s1 \div 65536
                  s3 == a[3] + b[3] + s2 \div 65536
                  s4 == a[4] + b[4] + s3 \div 65536
              IN <<s1 % 65536, s2 % 65536, s3 % 65536, s4 % 65536>>
Pow2(r) == 2 ^ r
Limb(w, i) == IF i >= 1 /\ i <= 4 THEN w[i] ELSE 0
\* logical shifts by s = 16q + r
WShr(w, s) == LET q == s \div 16  r == s % 16 IN
    [i \in 1..4 |-> IF r = 0 THEN Limb(w, i + q)
                    ELSE (Limb(w, i + q) \div Pow2(r)) + ((Limb(w, i + q + 1) % Pow2(r)) * Pow2(16 - r))]
WShl(w, s) == LET q == s \div 16  r == s % 16 IN
    [i \in 1..4 |-> IF r = 0 THEN Limb(w, i - q)
                    ELSE ((Limb(w, i - q) * Pow2(r)) % 65536) + (Limb(w, i - q - 1) \div Pow2(16 - r))]
XorShift(a) == LET x1 == WXor(a, WShr(a, 12))
                   x2 == WXor(x1, WShl(x1, 25))
               IN WXor(x2, WShr(x2, 27))

\* up to 8 bytes read big endian -> word
ChunkWord(bs) == LET n == Len(bs)
                     byteAt(k) == IF k < n THEN bs[n - k] ELSE 0      \* k-th least significant byte
                 IN [i \in 1..4 |-> byteAt(2 * (i - 1)) + 256 * byteAt(2 * (i - 1) + 1)]
RECURSIVE HFold(_, _, _)
HFold(h, bs, from) ==
    IF from > Len(bs) THEN h
    ELSE LET to == IF from + 7 <= Len(bs) THEN from + 7 ELSE Len(bs) IN
         HFold(XorShift(WAdd(h, ChunkWord(SubSeq(bs, from, to)))), bs, to + 1)
LenBytesLE(n) == <<n % 256, (n \div 256) % 256, (n \div 65536) % 256, (n \div 16777216) % 256, 0, 0, 0, 0>>
KHash(bs) == HFold(HFold(WZero, LenBytesLE(Len(bs)), 1), bs, 1)
\* bucket = hash mod n; n is a power of two <= 2^30, so the low 30 bits suffice
Low30(w) == w[1] + 65536 * (w[2] % 16384)
BucketOf(bs, n) == Low30(KHash(bs)) % n
=============================================================================
