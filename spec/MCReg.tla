--------------------------- MODULE MCReg ---------------------------
EXTENDS AbyReg
\* signatures as the contract wants them: one per key type
MC_SigDistinct == [t \in {"string", "bytes", "u64", "vu64"} |-> t]
\* signatures as the code has them: u64 and vu64 share "u64_le" (known finding D8)
MC_SigCode == [t \in {"string", "bytes", "u64", "vu64"} |-> IF t = "vu64" THEN "u64" ELSE t]
=============================================================================
