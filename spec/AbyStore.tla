--------------------------- MODULE AbyStore ---------------------------
(* Design layer: the storage of ONE map (bucket table .htx, key file .key, value file    *)
(* .val) and the update algorithms, transcribed operation for operation from             *)
(*   dbxxx.rs  put_kt / del_kt / get_kt / find_in_hash_buckets_kt / relink_bucket_chain   *)
(*   key.rs, val.rs  write_piece / add_*_piece / delete_piece                             *)
(*   piece.rs  push_free_piece_list / pop_free_piece_list(_large)                         *)
(*   htx.rs    write_key_piece_offset (head + bitmap bit), item count                     *)
(* Offsets, sizes and lengths are the real integers, so the specification predicts the    *)
(* real byte offsets.  Keys and values are ids; KLen/VLen give their byte lengths and KH  *)
(* the low 30 bits of the placement hash (AbyHash), so Bkt(k,n) = KH[k] % n for n <= 2^30.*)
EXTENDS AbyLayout, FiniteSets, TLC

CONSTANTS KLen,     \* function: key id (>= 1) -> key length in bytes
          VLen,     \* function: value id (>= 1) -> value length in bytes
          KH        \* function: key id -> low 30 bits of the placement hash

NoId == 0
Bkt(k, n) == KH[k] % n

Upd(f, x, v) == (x :> v) @@ f

(*************************************************************************************)
(* slot records (uniform for both files)                                              *)
(*   size  slot size in bytes          used  TRUE: holds a live record                *)
(*   id    key id / value id (0 none)  len   the length field stored behind the size   *)
(*   voff  (key) value-slot offset     nxt   (key) next key slot of the bucket chain   *)
(*   fnext (free) next free slot       pad   bytes behind the record are all zero      *)
(*************************************************************************************)
UsedK(size, k, voff, nxt) ==
    [size |-> size, used |-> TRUE, id |-> k, len |-> KLen[k], voff |-> voff, nxt |-> nxt, fnext |-> 0, pad |-> TRUE]
UsedV(size, v) ==
    [size |-> size, used |-> TRUE, id |-> v, len |-> VLen[v], voff |-> 0, nxt |-> 0, fnext |-> 0, pad |-> TRUE]
FreeR(size, fnext) ==
    [size |-> size, used |-> FALSE, id |-> NoId, len |-> 0, voff |-> 0, nxt |-> 0, fnext |-> fnext, pad |-> TRUE]

EmptyFile(hdr) == [slots |-> <<>>, free |-> [i \in 1..NClasses |-> 0], end |-> hdr]
EmptyStore(n) == [n |-> n, heads |-> <<>>, bm |-> {}, cnt |-> 0,
                  kf |-> EmptyFile(KeyHdr), vf |-> EmptyFile(ValHdr)]

(* bucket heads are kept sparsely: only non-zero heads are in DOMAIN S.heads *)
HeadOf(S, b) == IF b \in DOMAIN S.heads THEN S.heads[b] ELSE 0
\* htx.rs write_key_piece_offset: bitmap bit follows the head (set iff non-zero)
SetHead(S, b, off) ==
    IF off = 0
    THEN [S EXCEPT !.heads = [x \in (DOMAIN S.heads) \ {b} |-> S.heads[x]], !.bm = S.bm \ {b}]
    ELSE [S EXCEPT !.heads = Upd(S.heads, b, off), !.bm = S.bm \cup {b}]

(*************************************************************************************)
(* free lists (piece.rs)                                                              *)
(*************************************************************************************)
\* push_free_piece_list: LIFO push on the list of the slot's own size
PushFree(F, off) ==
    LET sz == F.slots[off].size
        c  == ClassIdx(sz)
    IN [F EXCEPT !.slots = Upd(F.slots, off, FreeR(sz, F.free[c])), !.free[c] = off]

\* pop_free_piece_list_large: first fit along the shared large list
RECURSIVE FirstFit(_, _, _, _)
FirstFit(F, need, prev, cur) ==
    IF cur = 0 THEN <<0, 0>>
    ELSE IF F.slots[cur].size >= need THEN <<prev, cur>>
    ELSE FirstFit(F, need, cur, F.slots[cur].fnext)

\* pop_free_piece_list: <<file', offset or 0>>
PopFree(F, need) ==
    LET c == ClassIdx(need)
        h == F.free[c]
    IN IF ~IsLarge(need)
       THEN IF h = 0 THEN <<F, 0>>
            ELSE <<[F EXCEPT !.free[c] = F.slots[h].fnext], h>>
       ELSE LET pc == FirstFit(F, need, 0, h) IN
            IF pc[2] = 0 THEN <<F, 0>>
            ELSE LET nx == F.slots[pc[2]].fnext IN
                 IF pc[1] = 0 THEN <<[F EXCEPT !.free[NClasses] = nx], pc[2]>>
                 ELSE <<[F EXCEPT !.slots = Upd(F.slots, pc[1], [F.slots[pc[1]] EXCEPT !.fnext = nx])], pc[2]>>

\* "add new" part of write_piece: a free slot if one suits (keeping ITS size), else the end
\* of the file.  <<file', offset, "pop" | "extend">>
Alloc(F, need, rec) ==
    LET p == PopFree(F, need) IN
    IF p[2] # 0
    THEN LET sz == p[1].slots[p[2]].size
             z  == IF need < sz THEN sz ELSE need
         IN <<[p[1] EXCEPT !.slots = Upd(p[1].slots, p[2], [rec EXCEPT !.size = z])], p[2], "pop">>
    ELSE <<[F EXCEPT !.slots = Upd(F.slots, F.end, [rec EXCEPT !.size = need]), !.end = F.end + need],
           F.end, "extend">>

\* write_piece(is_new = FALSE): in place when the rounded need fits the old slot, else
\* free the old slot FIRST and then allocate.  <<file', offset>>
Rewrite(F, off, need, rec) ==
    LET old == F.slots[off].size IN
    IF need <= old
    THEN <<[F EXCEPT !.slots = Upd(F.slots, off, [rec EXCEPT !.size = old])], off>>
    ELSE LET a == Alloc(PushFree(F, off), need, rec) IN <<a[1], a[2]>>

(*************************************************************************************)
(* chains                                                                             *)
(*************************************************************************************)
\* find_in_hash_buckets_kt: <<offset, previous offset>> or <<0, 0>>
RECURSIVE FindIn(_, _, _, _)
FindIn(S, k, prev, cur) ==
    IF cur = 0 THEN <<0, 0>>
    ELSE IF S.kf.slots[cur].id = k THEN <<cur, prev>>
    ELSE FindIn(S, k, cur, S.kf.slots[cur].nxt)
Find(S, k) == FindIn(S, k, 0, HeadOf(S, Bkt(k, S.n)))

\* find_prev_in_bucket_chain: the slot linking to `target` (0 = the bucket head)
RECURSIVE FindPrevIn(_, _, _, _)
FindPrevIn(S, target, prev, cur) ==
    IF cur = 0 \/ cur = target THEN prev
    ELSE FindPrevIn(S, target, cur, S.kf.slots[cur].nxt)
FindPrev(S, b, target) == FindPrevIn(S, target, 0, HeadOf(S, b))

\* relink_bucket_chain: make the predecessor link to `new`; rewriting the link can move
\* the predecessor as well, then continue up the chain
RECURSIVE Relink(_, _, _, _)
Relink(S, b, prev, new) ==
    IF prev = 0 THEN SetHead(S, b, new)
    ELSE LET p  == S.kf.slots[prev]
             r  == Rewrite(S.kf, prev, KeySlot(KLen[p.id], p.voff, new), UsedK(0, p.id, p.voff, new))
             S1 == [S EXCEPT !.kf = r[1]]
         IN IF r[2] = prev THEN S1
            ELSE Relink(S1, b, FindPrev(S1, b, prev), r[2])

(*************************************************************************************)
(* operations                                                                         *)
(*************************************************************************************)
Get(S, k) == LET f == Find(S, k) IN
    IF f[1] = 0 THEN NoId ELSE S.vf.slots[S.kf.slots[f[1]].voff].id

Put(S, k, v) ==
    LET b == Bkt(k, S.n)
        f == Find(S, k)
    IN IF f[1] # 0
       THEN \* store_value_on_insert
            LET off == f[1]
                kp  == S.kf.slots[off]
                rv  == Rewrite(S.vf, kp.voff, ValSlot(VLen[v]), UsedV(0, v))
                S1  == [S EXCEPT !.vf = rv[1]]
            IN IF rv[2] = kp.voff THEN S1
               ELSE LET rk == Rewrite(S1.kf, off, KeySlot(KLen[k], rv[2], kp.nxt), UsedK(0, k, rv[2], kp.nxt))
                        S2 == [S1 EXCEPT !.kf = rk[1]]
                    IN IF rk[2] = off THEN S2 ELSE Relink(S2, b, f[2], rk[2])
       ELSE \* adding: value first, then the key record at the chain head, then head, then count
            LET hd == HeadOf(S, b)
                av == Alloc(S.vf, ValSlot(VLen[v]), UsedV(0, v))
                S1 == [S EXCEPT !.vf = av[1]]
                ak == Alloc(S1.kf, KeySlot(KLen[k], av[2], hd), UsedK(0, k, av[2], hd))
                S2 == [S1 EXCEPT !.kf = ak[1]]
            IN [SetHead(S2, b, ak[2]) EXCEPT !.cnt = S.cnt + 1]

\* <<store', value id removed or NoId>>
Del(S, k) ==
    LET b == Bkt(k, S.n)
        f == Find(S, k)
    IN IF f[1] = 0 THEN <<S, NoId>>
       ELSE LET off == f[1]
                kp  == S.kf.slots[off]
                val == S.vf.slots[kp.voff].id
                S1  == IF f[2] = 0 THEN SetHead(S, b, kp.nxt)
                       ELSE LET p  == S.kf.slots[f[2]]
                                r  == Rewrite(S.kf, f[2], KeySlot(KLen[p.id], p.voff, kp.nxt),
                                              UsedK(0, p.id, p.voff, kp.nxt))
                                Sa == [S EXCEPT !.kf = r[1]]
                            IN IF r[2] = f[2] THEN Sa
                               ELSE Relink(Sa, b, FindPrev(Sa, b, f[2]), r[2])
                S2  == [S1 EXCEPT !.vf = PushFree(S1.vf, kp.voff)]
                S3  == [S2 EXCEPT !.kf = PushFree(S2.kf, off)]
            IN <<[S3 EXCEPT !.cnt = IF S.cnt > 0 THEN S.cnt - 1 ELSE 0], val>>

(*************************************************************************************)
(* derived structure.  All walks are fuelled so that they are total on ANY decoded      *)
(* image, also a corrupt one.  Derive(S) computes every walk once; the predicates take   *)
(* the derived record D so that a state is walked once per evaluation.                   *)
(*************************************************************************************)
KSlots(S) == DOMAIN S.kf.slots
VSlots(S) == DOMAIN S.vf.slots
SeqSet(s) == {s[i] : i \in 1..Len(s)}
NoDupSeq(s) == Cardinality(SeqSet(s)) = Len(s)

\* chain of bucket b: <<sequence of offsets, well-formed?>>.  Well-formed: ends at 0 within the
\* fuel (so no cycle), every member is a slot start, no slot twice.
RECURSIVE ChainFrom(_, _, _, _)
ChainFrom(S, cur, acc, fuel) ==
    IF cur = 0 THEN <<acc, TRUE>>
    ELSE IF fuel = 0 \/ cur \notin KSlots(S) THEN <<acc, FALSE>>
    ELSE ChainFrom(S, S.kf.slots[cur].nxt, Append(acc, cur), fuel - 1)
Chain(S, b) == LET c == ChainFrom(S, HeadOf(S, b), <<>>, Cardinality(KSlots(S)) + 1) IN <<c[1], c[2] /\ NoDupSeq(c[1])>>

\* free list i of file F: <<sequence of offsets, well-formed?>>
RECURSIVE FreeFrom(_, _, _, _)
FreeFrom(F, cur, acc, fuel) ==
    IF cur = 0 THEN <<acc, TRUE>>
    ELSE IF fuel = 0 \/ cur \notin DOMAIN F.slots THEN <<acc, FALSE>>
    ELSE FreeFrom(F, F.slots[cur].fnext, Append(acc, cur), fuel - 1)
FreeList(F, i) == LET c == FreeFrom(F, F.free[i], <<>>, Cardinality(DOMAIN F.slots) + 1) IN <<c[1], c[2] /\ NoDupSeq(c[1])>>

Derive(S) ==
    LET ch    == [b \in DOMAIN S.heads |-> Chain(S, b)]
        reach == UNION {SeqSet(ch[b][1]) : b \in DOMAIN S.heads}
        kfl   == [i \in 1..NClasses |-> FreeList(S.kf, i)]
        vfl   == [i \in 1..NClasses |-> FreeList(S.vf, i)]
    IN [ch |-> ch, reach |-> reach, rvals |-> {S.kf.slots[o].voff : o \in reach},
        kfl |-> kfl, vfl |-> vfl,
        kfs |-> UNION {SeqSet(kfl[i][1]) : i \in 1..NClasses},
        vfs |-> UNION {SeqSet(vfl[i][1]) : i \in 1..NClasses}]

Reachable(S) == Derive(S).reach
ReachVals(S) == Derive(S).rvals
FreeSet(F) == UNION {SeqSet(FreeList(F, i)[1]) : i \in 1..NClasses}

\* the contents an independent reader recovers: key id -> value id
AbsMapD(S, D) ==
    LET K == {S.kf.slots[o].id : o \in D.reach}
    IN [k \in K |-> LET o == CHOOSE o \in D.reach : S.kf.slots[o].id = k
                        vo == S.kf.slots[o].voff
                    IN IF vo \in VSlots(S) THEN S.vf.slots[vo].id ELSE NoId]
AbsMap(S) == AbsMapD(S, Derive(S))

(*************************************************************************************)
(* C05: the files decode to a consistent structure                                     *)
(*************************************************************************************)
\* every chain is well-formed and no key slot is a member of two chains
ChainsOKD(S, D)   == /\ \A b \in DOMAIN S.heads : D.ch[b][2]
                     /\ Cardinality(UNION {{<<b, i>> : i \in 1..Len(D.ch[b][1])} : b \in DOMAIN S.heads})
                          = Cardinality(D.reach)
HeadsOK(S)        == \A b \in DOMAIN S.heads : b \in 0..(S.n - 1) /\ S.heads[b] # 0
BucketsOKD(S, D)  == \A b \in DOMAIN S.heads : \A o \in SeqSet(D.ch[b][1]) :
                        LET k == S.kf.slots[o].id IN k \in DOMAIN KLen /\ Bkt(k, S.n) = b
NoDupKeysD(S, D)  == Cardinality({S.kf.slots[o].id : o \in D.reach}) = Cardinality(D.reach)
ValRefsOKD(S, D)  == D.rvals \subseteq VSlots(S)
NoSharedValD(S, D)== Cardinality(D.rvals) = Cardinality(D.reach)
CountOKD(S, D)    == S.cnt = Cardinality(D.reach)
BitmapOK(S)       == DOMAIN S.heads \subseteq S.bm
StructureOKD(S, D) == /\ HeadsOK(S) /\ ChainsOKD(S, D) /\ BucketsOKD(S, D) /\ NoDupKeysD(S, D)
                      /\ ValRefsOKD(S, D) /\ NoSharedValD(S, D) /\ CountOKD(S, D) /\ BitmapOK(S)
StructureOK(S) == StructureOKD(S, Derive(S))
ChainsOK(S) == ChainsOKD(S, Derive(S))
ValRefsOK(S) == ValRefsOKD(S, Derive(S))
\* the bitmap is exact in the design (not required by C05, which only needs "non-empty => flagged")
BitmapExact(S) == S.bm = DOMAIN S.heads

(*************************************************************************************)
(* C06: every slot is used by exactly one live entry xor on exactly one free list;     *)
(* slots tile the files                                                                *)
(*************************************************************************************)
RECURSIVE WalkFrom(_, _, _, _)
WalkFrom(F, o, acc, fuel) ==
    IF o = F.end THEN <<acc, TRUE>>
    ELSE IF fuel = 0 \/ o \notin DOMAIN F.slots \/ F.slots[o].size <= 0 THEN <<acc, FALSE>>
    ELSE WalkFrom(F, o + F.slots[o].size, acc \cup {o}, fuel - 1)
Tiles(F, hdr) == LET w == WalkFrom(F, hdr, {}, Cardinality(DOMAIN F.slots) + 1) IN
                 w[2] /\ w[1] = DOMAIN F.slots
\* sizes are stored divided by 8 and a free slot needs 10 bytes: what the format demands of a slot size
SizesOK(F) == \A o \in DOMAIN F.slots : LET z == F.slots[o].size IN z % 8 = 0 /\ z >= 16
\* what the design produces in addition: one of the 16 class values or a multiple of 128 above 1024
ClassSizesOK(F) == \A o \in DOMAIN F.slots : LegalSize(F.slots[o].size)
\* fl: the 16 derived lists of file F, fs: their union
FreeListsOKD(F, fl, fs) ==
    /\ \A i \in 1..NClasses : fl[i][2]
    /\ \A i \in 1..NClasses : \A o \in SeqSet(fl[i][1]) :
           ClassIdx(F.slots[o].size) = i /\ F.slots[o].len = 0
    /\ Cardinality(fs) = Len(fl[1][1]) + Len(fl[2][1]) + Len(fl[3][1]) + Len(fl[4][1]) + Len(fl[5][1])       \* no slot on two lists
           + Len(fl[6][1]) + Len(fl[7][1]) + Len(fl[8][1]) + Len(fl[9][1]) + Len(fl[10][1]) + Len(fl[11][1])
           + Len(fl[12][1]) + Len(fl[13][1]) + Len(fl[14][1]) + Len(fl[15][1]) + Len(fl[16][1])
FreeOKD(S, D) == FreeListsOKD(S.kf, D.kfl, D.kfs) /\ FreeListsOKD(S.vf, D.vfl, D.vfs)
\* used xor free, nothing orphaned
PartitionOKD(F, usedset, fs) ==
    /\ usedset \cap fs = {}
    /\ usedset \cup fs = DOMAIN F.slots
SpaceOKD(S, D) == /\ Tiles(S.kf, KeyHdr) /\ Tiles(S.vf, ValHdr)
                  /\ SizesOK(S.kf) /\ SizesOK(S.vf) /\ ClassSizesOK(S.kf) /\ ClassSizesOK(S.vf)
                  /\ FreeOKD(S, D)
                  /\ PartitionOKD(S.kf, D.reach, D.kfs) /\ PartitionOKD(S.vf, D.rvals, D.vfs)
SpaceOK(S) == SpaceOKD(S, Derive(S))
\* the model's own `used` flags agree with reachability (consistency of the design layer)
UsedFlagsOK(S) == LET D == Derive(S) IN
                  /\ \A o \in KSlots(S) : S.kf.slots[o].used <=> o \in D.reach
                  /\ \A o \in VSlots(S) : S.vf.slots[o].used <=> o \in D.rvals

(*************************************************************************************)
(* C09: every record fits the slot reserved for it, padding is zero                    *)
(*************************************************************************************)
FitsOKD(S, D) ==
    /\ \A o \in D.reach : LET r == S.kf.slots[o] IN KeyActual(r.len, r.voff, r.nxt, r.size) <= r.size
    /\ \A o \in D.rvals \cap VSlots(S) : LET r == S.vf.slots[o] IN ValActual(r.len, r.size) <= r.size
    /\ \A o \in D.kfs : FreeActual(S.kf.slots[o].size) <= S.kf.slots[o].size
    /\ \A o \in D.vfs : FreeActual(S.vf.slots[o].size) <= S.vf.slots[o].size
\* the bytes behind every record (used or free) are zero: what the design writes (write_zero_to_offset);
\* not demanded by a property by itself (C18 demands determinism, not zeros), so a logged state that
\* violates it is design drift
PadOKD(S, D) ==
    /\ \A o \in D.reach : S.kf.slots[o].pad
    /\ \A o \in D.rvals \cap VSlots(S) : S.vf.slots[o].pad
    /\ \A o \in D.kfs : S.kf.slots[o].pad
    /\ \A o \in D.vfs : S.vf.slots[o].pad
FitsOK(S) == FitsOKD(S, Derive(S))

(*************************************************************************************)
(* C17: what the statistics calls must report, as functions of the structure           *)
(*************************************************************************************)
\* count_of_free_*_piece: per class (in REC_SIZE_ARY order) the length of that list
FreeCountsD(fl) == [i \in 1..NClasses |-> Len(fl[i][1])]
\* histogram helper: value -> number of slots in `set` with that value, as a set of pairs
Hist(set, val(_)) == {<<x, Cardinality({o \in set : val(o) = x})>> : x \in {val(o) : o \in set}}
\* *_piece_size_stats / *_length_stats walk ALL slots and count those with a non-zero
\* length field (free slots and empty keys/values have length 0)
KeySizeHist(S) == LET X == {o \in KSlots(S) : S.kf.slots[o].len # 0} IN Hist(X, LAMBDA o : S.kf.slots[o].size)
KeyLenHist(S)  == LET X == {o \in KSlots(S) : S.kf.slots[o].len # 0} IN Hist(X, LAMBDA o : S.kf.slots[o].len)
ValSizeHist(S) == LET X == {o \in VSlots(S) : S.vf.slots[o].len # 0} IN Hist(X, LAMBDA o : S.vf.slots[o].size)
ValLenHist(S)  == LET X == {o \in VSlots(S) : S.vf.slots[o].len # 0} IN Hist(X, LAMBDA o : S.vf.slots[o].len)
\* the same figures from the live set only: what the property says they must be
LiveKeySizeHistD(S, D) == LET X == {o \in D.reach : S.kf.slots[o].len # 0} IN Hist(X, LAMBDA o : S.kf.slots[o].size)
LiveKeyLenHistD(S, D)  == LET X == {o \in D.reach : S.kf.slots[o].len # 0} IN Hist(X, LAMBDA o : S.kf.slots[o].len)
LiveValSizeHistD(S, D) == LET X == {o \in D.rvals \cap VSlots(S) : S.vf.slots[o].len # 0} IN Hist(X, LAMBDA o : S.vf.slots[o].size)
LiveValLenHistD(S, D)  == LET X == {o \in D.rvals \cap VSlots(S) : S.vf.slots[o].len # 0} IN Hist(X, LAMBDA o : S.vf.slots[o].len)
\* htx_filling_rate_per_mill: (non-empty buckets, count*1000 div n)
Filling(S) == LET c == Cardinality(DOMAIN S.heads) IN <<c, (c * 1000) \div S.n>>
StatsOK(S) == LET D == Derive(S) IN
              /\ KeySizeHist(S) = LiveKeySizeHistD(S, D) /\ KeyLenHist(S) = LiveKeyLenHistD(S, D)
              /\ ValSizeHist(S) = LiveValSizeHistD(S, D) /\ ValLenHist(S) = LiveValLenHistD(S, D)

\* position of key k in its chain: "only" | "first" | "middle" | "last" | "absent"
ChainPos(S, k) ==
    LET c == Chain(S, Bkt(k, S.n))[1]
        I == {i \in 1..Len(c) : S.kf.slots[c[i]].id = k}
    IN IF I = {} THEN "absent"
       ELSE LET i == CHOOSE i \in I : TRUE IN
            IF Len(c) = 1 THEN "only" ELSE IF i = 1 THEN "first" ELSE IF i = Len(c) THEN "last" ELSE "middle"
=============================================================================
