SPECIFICATION Spec
CONSTANTS
  N = 8
  MaxOcc = 0
  Fixed = TRUE
  AllSubsets = TRUE
INVARIANT ScanOK
CHECK_DEADLOCK FALSE
