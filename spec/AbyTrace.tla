--------------------------- MODULE AbyTrace ---------------------------
(* Trace validation: consumes an ndjson trace recorded from the real crate by the harness   *)
(* (one event per public call, IOEnv.TRACE), one TLC state per event.  The contract layer    *)
(* (AbyMap, durability, handles) is advanced with every event and the logged results are     *)
(* compared with it; logged storage states (decoded from the files by the independent        *)
(* decoder) are judged by the AbyStore formulas and compared with the design-layer           *)
(* successor.  Every verdict comes from a NAMED property conjunct Cxx.<what> evaluated on     *)
(* logged implementation data; a mere design mismatch is reported as SPEC-DRIFT.              *)
EXTENDS Integers, Sequences, FiniteSets, TLC, SequencesExt, Json, IOUtils, AbyHash, AbyCodec, AbyScan, AbyFormat

Rec == ndJsonDeserialize(IOEnv.TRACE)
NRec == Len(Rec)

M == INSTANCE AbyMap

Has(e, f) == f \in DOMAIN e
Fld(e, f, d) == IF f \in DOMAIN e THEN e[f] ELSE d

(*************************************************************************************)
(* key / value tables of the trace (events "tables")                                  *)
(*************************************************************************************)
TableEvents == SelectSeq(Rec, LAMBDA e : e.ev = "tables")
AllKeyEnts == FoldLeft(LAMBDA acc, e : acc \o Fld(e, "keys", <<>>), <<>>, TableEvents)
AllValEnts == FoldLeft(LAMBDA acc, e : acc \o Fld(e, "vals", <<>>), <<>>, TableEvents)
TrKLen == FoldLeft(LAMBDA acc, k : (k.id :> k.len) @@ acc, <<>>, AllKeyEnts)
TrVLen == FoldLeft(LAMBDA acc, v : (v.id :> v.len) @@ acc, <<>>, AllValEnts)
TrKH   == FoldLeft(LAMBDA acc, k : (k.id :> k.h30) @@ acc, <<>>, AllKeyEnts)
\* the design layer, instantiated with the tables of this trace (an unnamed INSTANCE: TLC caches the
\* substituted constant-level definitions, which it does not do for `KLen <- TrKLen` in a cfg file)
INSTANCE AbyStore WITH KLen <- TrKLen, VLen <- TrVLen, KH <- TrKH
\* lossy UTF-8 decoding on value ids: declared images (vals entries with lossy_of), identity otherwise
TrLossy == FoldLeft(LAMBDA acc, v : IF Has(v, "lossy_of") THEN (v.lossy_of :> v.id) @@ acc ELSE acc, <<>>, AllValEnts)
Lossy(v) == IF v \in DOMAIN TrLossy THEN TrLossy[v] ELSE v
\* the full 64-bit hash (limbs) per key, for tables whose stored bucket count is not a power of two (which
\* the crate never creates; only then the low 30 bits do not determine hash mod n)
TrKH4 == FoldLeft(LAMBDA acc, k : IF Has(k, "h4") THEN (k.id :> k.h4) @@ acc ELSE acc, <<>>, AllKeyEnts)
IsPow2(n) == n > 0 /\ \E e \in 0..30 : n = 2 ^ e
\* w mod n by Horner over the 16 nibbles (n < 2^27, so nothing exceeds 32 bits)
Nibble(w, j) == (w[(j \div 4) + 1] \div (16 ^ (j % 4))) % 16        \* j = 0..15, least significant first
RECURSIVE ModNib(_, _, _, _)
ModNib(w, n, j, acc) == IF j < 0 THEN acc ELSE ModNib(w, n, j - 1, (acc * 16 + Nibble(w, j)) % n)
HashMod(k, n) == IF IsPow2(n) \/ k \notin DOMAIN TrKH4 THEN TrKH[k] % n ELSE ModNib(TrKH4[k], n, 15, 0)
\* keys of every chain sit in the bucket the documented placement (H mod n) assigns, for any n
BucketsAnyN(S, D) == \A b \in DOMAIN S.heads : \A o \in {D.ch[b][1][i] : i \in 1..Len(D.ch[b][1])} :
                        LET k == S.kf.slots[o].id IN k \in DOMAIN TrKLen /\ HashMod(k, S.n) = b
KeyIds == DOMAIN TrKLen
ValIds == DOMAIN TrVLen
\* C12.placement: the placement hash of every short key, recomputed inside TLC from the key
\* bytes, equals the one the decoder's re-implementation logged
KeysWithBytes == {i \in 1..Len(AllKeyEnts) : Has(AllKeyEnts[i], "bytes")}
\* integer keys of the tables: their bytes are what AbyCodec says (checked once, with the hash table)
KeysWithInt == {i \in KeysWithBytes : Has(AllKeyEnts[i], "x4") /\ Has(AllKeyEnts[i], "enc")}
CodecTableOK == \A i \in KeysWithInt : AllKeyEnts[i].bytes = KeyBytesOf(AllKeyEnts[i].enc, AllKeyEnts[i].x4)
HashTableOK == \A i \in KeysWithBytes : Low30(KHash(AllKeyEnts[i].bytes)) = AllKeyEnts[i].h30

VARIABLES
    l,       \* number of events consumed
    mem,     \* map id -> ideal contents (AbyMap) or Unknown
    meta,    \* map id -> [kt, n, foreign]
    st,      \* map id -> design-layer storage state (AbyStore record) or "none"
    last,    \* map id -> last decoded storage state or "none"
    aux,     \* record of bookkeeping (durability, digests, peaks, fault mode, ...)
    skip,    \* TRUE after a verdict until the next "reset": the rest of that history is not judged
    nfail    \* number of verdicts so far
vars == <<l, mem, meta, st, last, aux, skip, nfail>>

AuxInit == [dur |-> <<>>,       \* map id -> BOOLEAN: the disk image is known to equal mem
            synced |-> <<>>,    \* map id -> BOOLEAN: an OS sync covers all updates so far
            dg |-> <<>>,        \* tag -> digest triple
            peak |-> <<>>,      \* map id -> peak used-slot counts
            since |-> <<>>,     \* map id -> <<number of updates since last decode, last updated key>>
            fault |-> FALSE,    \* a write fault (RLIMIT_FSIZE) is being injected
            design |-> TRUE,    \* advance the design layer on every update (off for long contract-only traces)
            nf |-> 0,           \* verdicts in this history so far
            sdg |-> <<>>,       \* <<map id, file (1 htx, 2 key, 3 val)>> -> digest of the file when it last got an OS sync
            inst |-> <<>>,      \* map id -> identity of the buffered instance its handles share (AbyReg!OneInstance)
            hist |-> 0]         \* history number (counts "reset" events)

Init == /\ l = 0 /\ mem = <<>> /\ meta = <<>> /\ st = <<>> /\ last = <<>>
        /\ aux = AuxInit /\ skip = FALSE /\ nfail = 0

Set(f, x, v) == (x :> v) @@ f
Get0(f, x, d) == IF x \in DOMAIN f THEN f[x] ELSE d
\* markers (TLC refuses to compare values of different kinds, so the markers are of the same kind)
Unknown == (-1 :> -1)            \* contents not determined by the history (e.g. killed before a flush)
NoneS == [n |-> -1]              \* no storage state tracked / logged
IsNone(x) == x.n = -1
NoPeak == [k |-> <<>>]
Known(m) == m \in DOMAIN mem /\ -1 \notin DOMAIN mem[m]

(*************************************************************************************)
(* decoded state (JSON) -> AbyStore record                                            *)
(*************************************************************************************)
RawFn(slots) == FoldLeft(LAMBDA acc, j : (j.off :> j) @@ acc, <<>>, slots)

RECURSIVE RawChain(_, _, _, _)
RawChain(raw, cur, acc, fuel) ==
    IF cur = 0 \/ fuel = 0 \/ cur \notin DOMAIN raw \/ cur \in acc THEN acc
    ELSE RawChain(raw, raw[cur].nxt, acc \cup {cur}, fuel - 1)

FromJson(j) ==
    LET kraw  == RawFn(j.ks)
        vraw  == RawFn(j.vs)
        heads == FoldLeft(LAMBDA acc, p : (p[1] :> p[2]) @@ acc, <<>>, j.heads)
        reach == UNION {RawChain(kraw, heads[b], {}, Len(j.ks) + 1) : b \in DOMAIN heads}
        rvals == {kraw[o].voff : o \in reach}
        kslot(o) == LET r == kraw[o] IN
            IF o \in reach
            THEN [size |-> r.size, used |-> TRUE, id |-> (IF r.id < 0 THEN NoId ELSE r.id), len |-> r.len,
                  voff |-> r.voff, nxt |-> r.nxt, fnext |-> 0, pad |-> r.pad]
            ELSE [size |-> r.size, used |-> FALSE, id |-> NoId, len |-> r.len,
                  voff |-> 0, nxt |-> 0, fnext |-> r.fnext, pad |-> r.fpad]
        vslot(o) == LET r == vraw[o] IN
            IF o \in rvals
            THEN [size |-> r.size, used |-> TRUE, id |-> (IF r.id < 0 THEN NoId ELSE r.id), len |-> r.len,
                  voff |-> 0, nxt |-> 0, fnext |-> 0, pad |-> r.pad]
            ELSE [size |-> r.size, used |-> FALSE, id |-> NoId, len |-> r.len,
                  voff |-> 0, nxt |-> 0, fnext |-> r.fnext, pad |-> r.fpad]
    IN [n |-> j.n, heads |-> heads, bm |-> {j.bm[i] : i \in 1..Len(j.bm)}, cnt |-> j.cnt,
        kf |-> [slots |-> [o \in DOMAIN kraw |-> kslot(o)], free |-> j.kfree, end |-> j.kend],
        vf |-> [slots |-> [o \in DOMAIN vraw |-> vslot(o)], free |-> j.vfree, end |-> j.vend]]

(*************************************************************************************)
(* named conjuncts on a decoded state                                                  *)
(*************************************************************************************)
\* returns the set of names of failed conjuncts of C05 / C06 / C09 / C12 on decoded state S
\* (D = Derive(S): every chain and free list walked once)
StateFails(j, S, D, m) ==
    LET sigok == /\ j.n > 0
                 /\ j.sig1 = <<"abysdbH~", "abysdbK~", "abysdbV~">>
                 /\ j.sig2[1] = j.sig2[2] /\ j.sig2[2] = j.sig2[3]
                 /\ j.heads_ok
        chok == ChainsOKD(S, D)
        vrok == ValRefsOKD(S, D)
        flok == FreeOKD(S, D)
    IN IF ~sigok THEN {"C12.header"} ELSE
       (IF HeadsOK(S) THEN {} ELSE {"C05.heads"})
       \cup (IF chok THEN {} ELSE {"C05.chains"})
       \cup (IF ~chok \/ (IF IsPow2(S.n) THEN BucketsOKD(S, D) ELSE S.n < 134217728 /\ BucketsAnyN(S, D)) THEN {} ELSE {"C05.buckets", "C12.placement"})
       \cup (IF NoDupKeysD(S, D) THEN {} ELSE {"C05.nodup"})
       \cup (IF vrok THEN {} ELSE {"C05.valrefs"})
       \cup (IF NoSharedValD(S, D) THEN {} ELSE {"C05.shared"})
       \cup (IF CountOKD(S, D) THEN {} ELSE {"C05.count"})
       \cup (IF BitmapOK(S) THEN {} ELSE {"C05.bitmap"})
       \cup (IF j.kwalk = j.kend /\ j.vwalk = j.vend THEN {} ELSE {"C06.tiles"})
       \cup (IF SizesOK(S.kf) /\ SizesOK(S.vf) THEN {} ELSE {"C06.sizes"})
       \cup (IF flok THEN {} ELSE {"C06.freelists"})
       \cup (IF ~(flok /\ chok) \/
                (PartitionOKD(S.kf, D.reach, D.kfs) /\ PartitionOKD(S.vf, D.rvals \cap VSlots(S), D.vfs))
             THEN {} ELSE {"C06.partition"})
       \cup (IF ~(chok /\ vrok /\ flok) \/ FitsOKD(S, D) THEN {} ELSE {"C09.fits"})
       \* a record of a reachable piece that needs more bytes than its slot has (it has spilled into the piece
       \* behind it; the structural conjuncts then fail as well, this one names the cause)
       \cup (IF \E i \in 1..Len(j.ks) : j.ks[i].off \in D.reach /\ j.ks[i].need > j.ks[i].size THEN {"C09.fits"} ELSE {})
       \cup (IF \E i \in 1..Len(j.vs) : j.vs[i].off \in D.rvals /\ j.vs[i].need > j.vs[i].size THEN {"C09.fits"} ELSE {})
       \* (reserved header bytes that are not zero: a later version may use them and an older reader ignores
       \*  them - C12 demands the documented layout, not zeros: reported as design drift by the decode event)
       \cup (IF ~Known(m) \/ ~(chok /\ vrok) \/ AbsMapD(S, D) = mem[m] THEN {} ELSE {"C05.content"})   \* an independent reader recovers the contents

WellFormed(S, D) == ChainsOKD(S, D) /\ ValRefsOKD(S, D) /\ FreeOKD(S, D)

(* step conjuncts between two consecutive decoded states P (before) and S (after) of one   *)
(* map, with exactly one update call on key k in between                                   *)
Suitable(fsz, z) == IF IsLarge(z) THEN fsz >= z ELSE fsz = z
ExtendOK(PF, pfs, SF, sfs) ==
    LET app  == {o \in DOMAIN SF.slots : o >= PF.end}
        both == {o \in pfs \cap sfs : PF.slots[o].size = SF.slots[o].size}
    IN \A a \in app : ~\E o \in both : Suitable(SF.slots[o].size, SF.slots[a].size)
StepFails(P, DP, S, DS, k) ==
    IF ~(WellFormed(P, DP) /\ WellFormed(S, DS)) THEN {} ELSE
       LET ap == AbsMapD(P, DP)
           as == AbsMapD(S, DS)
           others == (DOMAIN ap) \ {k}
           koff(X, DX, kk) == CHOOSE o \in DX.reach : X.kf.slots[o].id = kk
       IN (IF ExtendOK(P.kf, DP.kfs, S.kf, DS.kfs) /\ ExtendOK(P.vf, DP.vfs, S.vf, DS.vfs) THEN {} ELSE {"C06.extend_only_if_no_free"})
          \cup (IF \A kk \in others : kk \in DOMAIN as /\ as[kk] = ap[kk] THEN {} ELSE {"C08.others_keep"})
          \cup (IF \A kk \in others \cap DOMAIN as :
                      LET vp == P.kf.slots[koff(P, DP, kk)].voff
                          vs == S.kf.slots[koff(S, DS, kk)].voff
                      IN vp = vs => P.vf.slots[vp] = S.vf.slots[vs]
                THEN {} ELSE {"C09.neighbours"})
          \cup (IF S.n = P.n THEN {} ELSE {"C07.n"})

(* C06.bound: slots per class never exceed the peak number simultaneously used (+1) *)
UsedCount(F, usedset, c) == Cardinality({o \in usedset \cap DOMAIN F.slots : ClassIdx(F.slots[o].size) = c /\ ~IsLarge(F.slots[o].size)})
SlotCount(F, c) == Cardinality({o \in DOMAIN F.slots : ClassIdx(F.slots[o].size) = c /\ ~IsLarge(F.slots[o].size)})
LargeSizes(F) == {F.slots[o].size : o \in {x \in DOMAIN F.slots : IsLarge(F.slots[x].size)}}
UsedGE(F, usedset, z) == Cardinality({o \in usedset \cap DOMAIN F.slots : F.slots[o].size >= z})
SlotsGE(F, z) == Cardinality({o \in DOMAIN F.slots : F.slots[o].size >= z})
\* peak record: [k |-> [c -> n], v |-> [c -> n], kl |-> [z -> n], vl |-> [z -> n]]
PeakOf(S, D, first) ==
    LET R == D.reach  V == D.rvals IN
    [k  |-> [c \in 1..15 |-> IF first THEN SlotCount(S.kf, c) ELSE UsedCount(S.kf, R, c)],
     v  |-> [c \in 1..15 |-> IF first THEN SlotCount(S.vf, c) ELSE UsedCount(S.vf, V, c)],
     kl |-> [z \in LargeSizes(S.kf) |-> IF first THEN SlotsGE(S.kf, z) ELSE UsedGE(S.kf, R, z)],
     vl |-> [z \in LargeSizes(S.vf) |-> IF first THEN SlotsGE(S.vf, z) ELSE UsedGE(S.vf, V, z)]]
MaxN(a, b) == IF a > b THEN a ELSE b
\* peak for threshold z given a recorded peak function over (other) thresholds: the recorded
\* peak of the smallest recorded threshold <= z is an upper bound witness (more slots counted)
MergePeak(p, q) ==
    [k  |-> [c \in 1..15 |-> MaxN(p.k[c], q.k[c])],
     v  |-> [c \in 1..15 |-> MaxN(p.v[c], q.v[c])],
     kl |-> [z \in DOMAIN p.kl \cup DOMAIN q.kl |-> MaxN(Get0(p.kl, z, 0), Get0(q.kl, z, 0))],
     vl |-> [z \in DOMAIN p.vl \cup DOMAIN q.vl |-> MaxN(Get0(p.vl, z, 0), Get0(q.vl, z, 0))]]
\* peak of "used with size >= z" seen so far: at least the recorded peak at any threshold >= z
PeakGE(pl, z) == LET C == {y \in DOMAIN pl : y >= z} IN
                 IF C = {} THEN 0 ELSE CHOOSE n \in {pl[y] : y \in C} : \A y \in C : pl[y] <= n
BoundFails(S, pk) ==
    IF /\ \A c \in 1..15 : SlotCount(S.kf, c) <= pk.k[c] + 1
       /\ \A c \in 1..15 : SlotCount(S.vf, c) <= pk.v[c] + 1
    THEN {} ELSE {"C06.bound"}

(*************************************************************************************)
(* statistics (C17) against the decoded state                                          *)
(*************************************************************************************)
PairsSet(seq) == {<<seq[i][1], seq[i][2]>> : i \in 1..Len(seq)}
StatsFails(r, S) ==
    LET D == Derive(S) IN
    IF ~WellFormed(S, D) THEN {} ELSE
    \* (a single statistics call logs only its own figure)
    (IF ~Has(r, "kfree") \/ \A i \in 1..NClasses : r.kfree[i] = <<Classes[i], FreeCountsD(D.kfl)[i]>> THEN {} ELSE {"C17.free"})
    \cup (IF ~Has(r, "vfree") \/ \A i \in 1..NClasses : r.vfree[i] = <<Classes[i], FreeCountsD(D.vfl)[i]>> THEN {} ELSE {"C17.free"})
    \cup (IF ~Has(r, "ksize") \/ PairsSet(r.ksize) = LiveKeySizeHistD(S, D) THEN {} ELSE {"C17.keysize"})
    \cup (IF ~Has(r, "vsize") \/ PairsSet(r.vsize) = LiveValSizeHistD(S, D) THEN {} ELSE {"C17.valsize"})
    \cup (IF ~Has(r, "klen") \/ PairsSet(r.klen) = LiveKeyLenHistD(S, D) THEN {} ELSE {"C17.keylen"})
    \cup (IF ~Has(r, "vlen") \/ PairsSet(r.vlen) = LiveValLenHistD(S, D) THEN {} ELSE {"C17.vallen"})
    \cup (IF ~Has(r, "filling") \/ r.filling = Filling(S) THEN {} ELSE {"C17.filling"})
\* the same figures from the contract alone (no decoded state needed): length histograms of
\* the live keys / values and the number of occupied buckets
ModelHist(ids, lenf) == {<<x, Cardinality({i \in ids : lenf[i] = x})>> : x \in {lenf[i] : i \in ids} \ {0}}
\* value histogram counts entries, not distinct value ids
ModelValHist(mm) == LET L == {TrVLen[mm[k]] : k \in DOMAIN mm} \ {0} IN
                    {<<x, Cardinality({k \in DOMAIN mm : TrVLen[mm[k]] = x})>> : x \in L}
StatsModelFails(r, m) ==
    IF ~Known(m) THEN {} ELSE
    LET mm == mem[m] IN
    (IF ~Has(r, "klen") \/ PairsSet(r.klen) = ModelHist(DOMAIN mm, TrKLen) THEN {} ELSE {"C17.keylen"})
    \cup (IF ~Has(r, "vlen") \/ PairsSet(r.vlen) = ModelValHist(mm) THEN {} ELSE {"C17.vallen"})
    \cup (IF ~Has(r, "filling") \/ ~(m \in DOMAIN meta) \/ meta[m].n <= 0 THEN {} ELSE
          LET nb == Cardinality({TrKH[k] % meta[m].n : k \in DOMAIN mm}) IN
          IF r.filling = <<nb, (nb * 1000) \div meta[m].n>> THEN {} ELSE {"C17.filling"})

(*************************************************************************************)
(* iteration (C04)                                                                     *)
(*************************************************************************************)
IterFails(e, mm) ==
    LET items == e.items
        ni    == Len(items)
        n     == M!MLen(mm)
        \* keys() / values(): the projections as multisets (the items are used directly: projecting them into
        \* LET-bound functions first makes TLC re-convert those functions at every use)
        keysok == /\ ni = n /\ \A i \in 1..ni : items[i][1] \in DOMAIN mm
                  /\ Cardinality({items[i][1] : i \in 1..ni}) = ni
        dom    == SetToSeq(DOMAIN mm)
        mv     == [i \in 1..n |-> mm[dom[i]]]
        mvs    == {mv[i] : i \in 1..n}
        valsok == /\ ni = n /\ {items[i][2] : i \in 1..ni} = mvs
                  /\ \A v \in mvs : Cardinality({i \in 1..ni : items[i][2] = v}) = Cardinality({i \in 1..n : mv[i] = v})
        okitems == CASE e.flavour = "keys"   -> keysok
                     [] e.flavour = "values" -> valsok
                     [] OTHER                -> M!ItemsAreMap(items, mm)
    IN (IF okitems /\ ~e.overrun THEN {} ELSE {"C04.items"})
       \cup (IF ni = n THEN {} ELSE {"C04.count"})
       \cup (IF ni # n \/ M!HintsExact(e.hints, n) THEN {} ELSE {"C04.hints"})
       \cup (IF e.fused THEN {} ELSE {"C04.fused"})

Tally(P, DP, S, DS, k) ==
    LET kp == Find(P, k)  ks == Find(S, k)
        both == kp[1] # 0 /\ ks[1] # 0
        offs(X, DX) == [kk \in {X.kf.slots[o].id : o \in DX.reach} |-> CHOOSE o \in DX.reach : X.kf.slots[o].id = kk]
        op == offs(P, DP)
        os == offs(S, DS)
        others == {j \in (DOMAIN op \cap DOMAIN os) \ {k} : op[j] # os[j]}
    IN <<IF kp[1] = 0 /\ ks[1] # 0 THEN "new" ELSE IF both THEN "overwrite" ELSE IF kp[1] # 0 THEN "delete" ELSE "miss",
         ChainPos(IF kp[1] # 0 THEN P ELSE S, k),
         IF both /\ P.kf.slots[kp[1]].voff # S.kf.slots[ks[1]].voff THEN "valmoved" ELSE "valstays",
         IF both /\ kp[1] # ks[1] THEN "keymoved" ELSE "keystays",
         Cardinality(others),
         IF S.kf.end > P.kf.end THEN "kext" ELSE "knoext",
         IF S.vf.end > P.vf.end THEN "vext" ELSE "vnoext">>

\* which components of the logged state differ from the design-layer prediction (SPEC-DRIFT report)
DiffS(A, B) ==
    LET sd(FA, FB) == {o \in DOMAIN FA.slots \cup DOMAIN FB.slots :
                          o \notin DOMAIN FA.slots \/ o \notin DOMAIN FB.slots \/ FA.slots[o] # FB.slots[o]}
    IN [n |-> A.n # B.n, heads |-> A.heads # B.heads, bm |-> A.bm # B.bm, cnt |-> A.cnt # B.cnt,
        kslots |-> sd(A.kf, B.kf), kfree |-> A.kf.free # B.kf.free, kend |-> <<A.kf.end, B.kf.end>>,
        vslots |-> sd(A.vf, B.vf), vfree |-> A.vf.free # B.vf.free, vend |-> <<A.vf.end, B.vf.end>>]


(*************************************************************************************)
(* event processing                                                                    *)
(*************************************************************************************)
ContentMap(seq) == FoldLeft(LAMBDA acc, p : (p[1] :> p[2]) @@ acc, <<>>, seq)
UpdateKinds == {"put", "del", "put_string", "del_string", "bulk_put", "bulk_put_string", "bulk_del", "bulk_del_string", "put_from_iter", "put_from_iter_self"}
IsUpdate(e) == e.ev \in UpdateKinds

\* the same formula (what was read back equals the contract state) instantiates several properties;
\* the scenario says which one through the "as" field, which must be one of a fixed set
ContentConjs == {"C02.content", "C03.snapshot", "C07.reopen", "C12.content", "C16.reported", "C16.recover", "C16.view", "C11.result"}
AsConj(e, d) == IF Has(e, "as") THEN (IF e.as \in ContentConjs THEN e.as ELSE "TOOL.bad_conj") ELSE d

\* outcome conjunct: a call on a healthy file system returns ok
OutcomeFails(e) == IF e.outcome = "ok" \/ aux.fault THEN {} ELSE {"C01.outcome"}

\* binding of AbyBuf!Flush: the writes a map-level flush issues (syscall log, field "wr": <<file, offset,
\* length>>) come file by file in the order val, key, htx, in ascending offsets inside a file, chunk aligned
FileRank(f) == CASE f = "val" -> 1 [] f = "key" -> 2 [] OTHER -> 3
FlushOrderOK(w) == /\ \A i \in 1..(Len(w) - 1) :
                        \/ FileRank(w[i][1]) < FileRank(w[i + 1][1])
                        \/ (w[i][1] = w[i + 1][1] /\ w[i][2] < w[i + 1][2])
                   /\ \A i \in 1..Len(w) : w[i][2] % 4096 = 0

\* sync events: each of the three files got an OS sync of the right flavour (or is already covered)
\* evidence of the OS syncs issued during the call: the syscall log (strace, field "sys") when the trace
\* has it, else the io-trace hook (field "io")
SyncLog(e) == IF Has(e, "sys") THEN e.sys ELSE e.io
SyncIoOK(e, op) == \A f \in {"val", "key", "htx"} : \E i \in 1..Len(SyncLog(e)) : SyncLog(e)[i] = <<f, op>>
\* per file: an OS sync is needed only if the bytes of the file (as the page cache has them after the call) differ
\* from what they were when the file was last synced ("a file that was not written needs no fsync")
FileName(f) == CASE f = 1 -> "htx" [] f = 2 -> "key" [] OTHER -> "val"
SyncedNow(e, op, f) == \E i \in 1..Len(SyncLog(e)) : SyncLog(e)[i] = <<FileName(f), op>>
NeedsSync(a, mm, f, dg) == Get0(a.sdg, <<mm, f>>, "never") # dg[f]
MapsOfDir(d) == {m \in DOMAIN meta : meta[m].dir = d /\ meta[m].open}

\* The result of processing event e: new values of the variables plus the failed conjuncts
Proc(e) ==
    LET m == Fld(e, "m", "-")
        base == [mem |-> mem, meta |-> meta, st |-> st, last |-> last, aux |-> aux, fails |-> {}, drift |-> "", tally |-> <<>>]
        known == Known(m)
        mm == IF known THEN mem[m] ELSE <<>>
        sinc == Get0(aux.since, m, <<0, 0>>)
        upd(newmm, k) == [base EXCEPT !.mem = Set(mem, m, newmm),
                                       !.aux = [aux EXCEPT !.dur = Set(aux.dur, m, FALSE), !.synced = Set(aux.synced, m, FALSE),
                                                           !.since = Set(aux.since, m, <<sinc[1] + 1, k>>)]]
        tracked == m \in DOMAIN st /\ ~IsNone(st[m])
    IN
    CASE e.ev = "reset" ->
            [base EXCEPT !.mem = <<>>, !.meta = <<>>, !.st = <<>>, !.last = <<>>,
                         !.aux = [AuxInit EXCEPT !.hist = aux.hist + 1, !.design = Fld(e, "design", TRUE)]]
      [] e.ev = "map" ->
            LET exists == m \in DOMAIN mem
                n0 == IF Has(e, "params") /\ Has(e.params, "buckets")
                      THEN BucketsFromParam(e.params.buckets[1], IF Len(e.params.buckets) > 1 THEN e.params.buckets[2] ELSE 0)
                      ELSE DefaultBuckets
            IN IF ~exists
               THEN \* creation
                    IF e.outcome = "ok"
                    THEN [base EXCEPT !.mem = Set(mem, m, <<>>),
                                      !.meta = Set(meta, m, [kt |-> e.kt, n |-> n0, dir |-> e.dir, foreign |-> FALSE, open |-> TRUE]),
                                      !.st = Set(st, m, IF aux.design THEN EmptyStore(n0) ELSE NoneS),
                                      !.last = Set(last, m, NoneS),
                                      !.aux = [aux EXCEPT !.dur = Set(aux.dur, m, FALSE), !.synced = Set(aux.synced, m, FALSE)],
                                      !.fails = IF e.len = 0 THEN {} ELSE {"C01.result"}]
                    ELSE [base EXCEPT !.fails = OutcomeFails(e)]
               ELSE LET mt == meta[m]
                        must_refuse == mt.foreign \/ mt.kt # e.kt
                    IN IF must_refuse
                       THEN [base EXCEPT !.fails = IF e.outcome \in {"err", "panic"} THEN {} ELSE {"C13.refused"}]
                       ELSE IF ~known THEN [base EXCEPT !.meta = Set(meta, m, [mt EXCEPT !.open = (e.outcome = "ok")])]
                       ELSE IF e.outcome # "ok" THEN [base EXCEPT !.fails = OutcomeFails(e) \cup {AsConj(e, "C02.content")}]
                       ELSE [base EXCEPT !.meta = Set(meta, m, [mt EXCEPT !.open = TRUE]),
                                         !.fails = IF e.len = M!MLen(mm) THEN {} ELSE {AsConj(e, "C02.content")}]
      [] e.ev \in {"put", "put_string"} ->
            IF ~known THEN base ELSE
            LET r == upd(M!MPut(mm, e.k, e.v), e.k) IN
            [r EXCEPT !.st = IF ~tracked THEN st ELSE Set(st, m, Put(st[m], e.k, e.v)),
                      !.fails = OutcomeFails(e)]
      [] e.ev = "get" ->
            IF ~known THEN base ELSE
            [base EXCEPT !.fails = OutcomeFails(e) \cup
                (IF e.outcome # "ok" \/ e.res = M!MGet(mm, e.k) THEN {} ELSE {"C01.result"})]
      [] e.ev = "get_string" ->
            \* C14: the string variant is the byte variant composed with lossy UTF-8 decoding
            IF ~known THEN base ELSE
            [base EXCEPT !.fails = OutcomeFails(e) \cup
                (IF e.outcome # "ok" \/ e.res = Lossy(M!MGet(mm, e.k)) THEN {} ELSE {"C14.string_variant"})]
      [] e.ev \in {"del", "del_string"} ->
            IF ~known THEN base ELSE
            LET d == M!MDel(mm, e.k)
                r == IF d[2] = 0 THEN base ELSE upd(d[1], e.k)
            IN [r EXCEPT !.st = IF ~tracked THEN st ELSE Set(st, m, Del(st[m], e.k)[1]),
                         !.fails = OutcomeFails(e) \cup
                            (IF e.outcome # "ok" \/ e.res = (IF e.ev = "del" THEN d[2] ELSE Lossy(d[2])) THEN {} ELSE {"C01.result"})]
      [] e.ev \in {"bulk_get", "bulk_get_string"} ->
            \* C14: position i holds what get of the i-th key returns (any batch)
            IF ~known THEN base ELSE
            [base EXCEPT !.fails = OutcomeFails(e) \cup
                (IF e.outcome # "ok" \/ e.res = [i \in 1..Len(e.ks) |-> IF e.ev = "bulk_get" THEN M!MGet(mm, e.ks[i]) ELSE Lossy(M!MGet(mm, e.ks[i]))]
                 THEN {} ELSE {"C14.bulk_get"})]
      [] e.ev \in {"bulk_del", "bulk_del_string"} ->
            \* C14: element-wise results for batches without repeated keys; the final map is the
            \* element-wise one for any batch
            IF ~known THEN base ELSE
            LET d == M!MDelAll(mm, e.ks)
                r == IF d[1] = mm THEN base ELSE upd(d[1], 0)
            IN [r EXCEPT !.st = IF tracked THEN Set(st, m, NoneS) ELSE st,
                         !.fails = OutcomeFails(e) \cup
                            (IF e.outcome # "ok" \/ ~M!NoRepeats(e.ks) \/
                                e.res = [i \in 1..Len(e.ks) |-> IF e.ev = "bulk_del" THEN d[2][i] ELSE Lossy(d[2][i])]
                             THEN {} ELSE {"C14.bulk_delete"})]
      [] e.ev \in {"bulk_put", "bulk_put_string", "put_from_iter"} ->
            \* C14: the map afterwards is the one the individual puts leave (bulk_put: batches without
            \* repeated keys; put_from_iter: in iteration order); judged by the reads that follow
            IF ~known THEN base ELSE
            IF e.ev # "put_from_iter" /\ ~M!NoRepeats(e.ks) THEN [base EXCEPT !.mem = Set(mem, m, Unknown)] ELSE
            LET pairs == [i \in 1..Len(e.ks) |-> <<e.ks[i], e.vs[i]>>]
                r == upd(M!MPutAll(mm, pairs), 0)
            IN [r EXCEPT !.st = IF tracked THEN Set(st, m, NoneS) ELSE st, !.fails = OutcomeFails(e)]
      [] e.ev = "put_from_iter_self" ->
            \* C14: put_from_iter fed by an iterator over the map itself (or another handle of it), every value
            \* written back unchanged: element-wise puts of the same pairs succeed and leave the map as it is
            IF ~known THEN base ELSE
            [base EXCEPT !.st = IF tracked THEN Set(st, m, NoneS) ELSE st,
                         !.fails = OutcomeFails(e) \cup (IF e.outcome = "ok" \/ aux.fault THEN {} ELSE {"C14.put_from_iter"})]
      [] e.ev = "iter_abandon" ->
            \* a traversal given up after a few steps: a read-only call like any other
            [base EXCEPT !.fails = OutcomeFails(e)]
      [] e.ev = "includes" ->
            IF ~known THEN base ELSE
            [base EXCEPT !.fails = OutcomeFails(e) \cup
                (IF e.outcome # "ok" \/ e.res = M!MIncludes(mm, e.k) THEN {} ELSE {"C01.result"})]
      [] e.ev = "len" ->
            IF ~known THEN base ELSE
            [base EXCEPT !.fails = OutcomeFails(e) \cup
                (IF e.outcome # "ok" \/ e.res = M!MLen(mm) THEN {} ELSE {"C01.result"})]
      [] e.ev = "is_empty" ->
            IF ~known THEN base ELSE
            [base EXCEPT !.fails = OutcomeFails(e) \cup
                (IF e.outcome # "ok" \/ e.res = M!MIsEmpty(mm) THEN {} ELSE {"C01.result"})]
      [] e.ev = "iter" ->
            IF ~known THEN base ELSE
            [base EXCEPT !.fails = OutcomeFails(e) \cup (IF e.outcome = "ok" THEN IterFails(e, mm) ELSE {}),
                         \* binding of AbyScan: when the design state is tracked, the ORDER in which the real iterator
                         \* yields is the one the transcribed bitmap scan predicts (a mismatch is design drift only:
                         \* the property does not constrain the order)
                         \* (tables above 4096 buckets excepted: the literal scan of the default table's 16 Mi buckets
                         \*  takes TLC longer than every other event of a history together)
                         !.drift = IF tracked /\ e.outcome = "ok" /\ ~e.overrun /\ st[m].n <= 4096
                                   THEN LET it == Iterate(st[m])
                                            pred == CASE e.flavour = "keys"   -> [i \in 1..Len(it.items) |-> <<it.items[i][1], 0>>]
                                                      [] e.flavour = "values" -> [i \in 1..Len(it.items) |-> <<0, it.items[i][2]>>]
                                                      [] OTHER                -> it.items
                                        IN IF pred = e.items /\ it.hints = e.hints THEN "" ELSE "iteration order or hints differ from AbyScan"
                                   ELSE ""]
      [] e.ev = "dump" ->
            IF ~known THEN base ELSE
            [base EXCEPT !.fails = OutcomeFails(e) \cup
                (IF e.outcome = "ok" /\ ContentMap(e.content) = mm /\ e.len = M!MLen(mm) THEN {} ELSE {AsConj(e, "C02.content")})]
      [] e.ev = "child_dump" ->
            \* a directory (or a snapshot copy of it) opened in a freshly spawned process
            IF ~(m \in DOMAIN mem) THEN base ELSE
            IF meta[m].foreign \/ meta[m].kt # e.kt
            THEN [base EXCEPT !.fails = IF e.open \in {"err", "panic"} THEN {} ELSE {"C13.refused"}]
            ELSE IF ~known THEN base
            ELSE [base EXCEPT !.fails =
                    IF e.open # "ok" THEN {AsConj(e, "C02.content")}
                    ELSE IF /\ ContentMap(e.content) = mm /\ e.len = M!MLen(mm)
                            /\ e.iter_outcome = "ok" /\ M!ItemsAreMap(e.items, mm)
                         THEN {} ELSE {AsConj(e, "C02.content")}]
      [] e.ev \in {"flush", "sync_all", "sync_data"} ->
            IF ~(m \in DOMAIN mem) THEN base ELSE
            LET ok == e.outcome = "ok"
                hasdg == Has(e, "fdg")
                \* every file got its OS sync, or did not need one
                syn == e.ev # "flush" /\ ok /\ (IF hasdg THEN \A f \in 1..3 : SyncedNow(e, e.ev, f) \/ ~NeedsSync(aux, m, f, e.fdg)
                                                         ELSE SyncIoOK(e, e.ev))
                covered == Get0(aux.synced, m, FALSE)
                sdg2 == IF e.ev # "flush" /\ ok /\ hasdg
                        THEN [x \in DOMAIN aux.sdg \cup {<<m, f>> : f \in {g \in 1..3 : SyncedNow(e, e.ev, g)}} |->
                                 IF x[1] = m /\ SyncedNow(e, e.ev, x[2]) THEN e.fdg[x[2]] ELSE aux.sdg[x]]
                        ELSE aux.sdg
            IN [base EXCEPT !.aux = [aux EXCEPT !.dur = Set(aux.dur, m, ok /\ known),
                                                !.sdg = sdg2,
                                                !.synced = Set(aux.synced, m, syn \/ (covered /\ ok))],
                            !.drift = IF Has(e, "wr") /\ ~FlushOrderOK(e.wr) THEN "flush write order differs from AbyBuf (val, key, htx; ascending chunk-aligned offsets)"
                                      \* AbyBuf!mdirty is the crate's is_dirty(): cleared by a successful flush/sync, kept by a failed one
                                      ELSE IF Has(e, "dirty") /\ e.dirty # ~ok /\ ~(ok = FALSE /\ ~aux.fault) THEN "is_dirty() after flush/sync differs from AbyBuf"
                                      ELSE "",
                            !.fails = (IF ok \/ aux.fault THEN {} ELSE {"C03.outcome"})
                                      \cup (IF e.ev = "flush" \/ ~ok \/ syn \/ covered THEN {} ELSE {"C03.sync_calls"})]
      [] e.ev \in {"db_sync_all", "db_sync_data"} ->
            LET ok == e.outcome = "ok"
                ms == MapsOfDir(e.dir)
                op == IF e.ev = "db_sync_all" THEN "sync_all" ELSE "sync_data"
                cnt(f) == Cardinality({i \in 1..Len(SyncLog(e)) : SyncLog(e)[i] = <<f, op>>})
                hasdg == Has(e, "fdgs")
                dgof(x) == IF hasdg /\ x \in DOMAIN e.fdgs THEN e.fdgs[x] ELSE <<"?1", "?2", "?3">>
                \* the maps of the directory whose file f changed since its last OS sync
                needing(f) == {x \in ms : IF hasdg THEN NeedsSync(aux, x, f, dgof(x)) ELSE ~Get0(aux.synced, x, FALSE)}
                syn == \A f \in 1..3 : cnt(FileName(f)) >= Cardinality(needing(f))
                all == \A f \in {"val", "key", "htx"} : cnt(f) >= Cardinality(ms)
                \* (the log does not say WHICH map's file was synced: with enough syncs the needing ones are taken as served)
                sdg2 == IF ok /\ hasdg /\ syn
                        THEN [x \in DOMAIN aux.sdg \cup {<<y, f>> : y \in ms, f \in 1..3} |->
                                 IF x[1] \in ms /\ (x[1] \in needing(x[2]) \/ cnt(FileName(x[2])) >= Cardinality(ms)) THEN dgof(x[1])[x[2]]
                                 ELSE Get0(aux.sdg, x, "never")]
                        ELSE aux.sdg
            IN [base EXCEPT !.aux = [aux EXCEPT !.dur = [x \in DOMAIN aux.dur |-> IF x \in ms THEN ok /\ Known(x) ELSE aux.dur[x]],
                                                !.sdg = sdg2,
                                                !.synced = [x \in DOMAIN aux.synced |-> IF x \in ms /\ ok /\ all THEN TRUE ELSE aux.synced[x]]],
                            !.fails = (IF ok \/ aux.fault THEN {} ELSE {"C03.outcome"})
                                      \cup (IF ~ok \/ syn THEN {} ELSE {"C03.sync_calls"})]
      [] e.ev \in {"drop_all", "new_process"} ->
            \* clean close of every handle: the disk image equals the logical contents
            [base EXCEPT !.aux = [aux EXCEPT !.dur = [x \in DOMAIN aux.dur |-> Known(x)]],
                         !.meta = [x \in DOMAIN meta |-> [meta[x] EXCEPT !.open = FALSE]]]
      [] e.ev = "kill_here" ->
            \* SIGKILL with handles alive: maps whose image is not known to be durable become unknown
            [base EXCEPT !.mem = [x \in DOMAIN mem |-> IF Get0(aux.dur, x, FALSE) THEN mem[x] ELSE Unknown],
                         !.st = [x \in DOMAIN st |-> NoneS],
                         !.meta = [x \in DOMAIN meta |-> [meta[x] EXCEPT !.open = FALSE]]]
      [] e.ev = "copy_dir" ->
            \* snapshot of a directory: each map of it exists in the copy with its durable contents
            LET prs == {e.maps[i] : i \in 1..Len(e.maps)}      \* <<map id in the source, map id in the copy>>
                new == {p[2] : p \in {q \in prs : q[1] \in DOMAIN meta}}
                of(y) == (CHOOSE p \in prs : p[2] = y)[1]
            IN [base EXCEPT !.mem = [y \in new |-> IF Known(of(y)) /\ Get0(aux.dur, of(y), FALSE) THEN mem[of(y)] ELSE Unknown] @@ mem,
                            !.meta = [y \in new |-> [meta[of(y)] EXCEPT !.dir = e.to, !.open = FALSE]] @@ meta,
                            !.st = [y \in new |-> NoneS] @@ st,
                            !.last = [y \in new |-> NoneS] @@ last,
                            !.aux = [aux EXCEPT !.dur = [y \in new |-> TRUE] @@ aux.dur, !.synced = [y \in new |-> FALSE] @@ aux.synced]]
      [] e.ev = "rlimit_fsize" ->
            [base EXCEPT !.aux = [aux EXCEPT !.fault = (e.bytes >= 0)]]
      [] e.ev = "decode" ->
            IF Has(e, "native") /\ ~Has(e, "st")
            THEN \* image above the slot cap: judged by the native monitor (mirrors the formulas)
                 [base EXCEPT !.fails = {e.native.fails[i] : i \in 1..Len(e.native.fails)} \cup
                        (IF ~known \/ ContentMap(e.native.content) = mm THEN {} ELSE {"C05.content"}),
                        !.st = Set(st, m, NoneS), !.last = Set(last, m, NoneS)]
            ELSE IF Has(e.st, "error") THEN [base EXCEPT !.fails = {"C05.readable"}]
            ELSE
            LET S  == FromJson(e.st)
                D  == Derive(S)
                P  == Get0(last, m, NoneS)
                DP == Derive(P)
                wf == ChainsOKD(S, D) /\ ValRefsOKD(S, D)
                sf == StateFails(e.st, S, D, m) \cup
                      \* the stored bucket count never changes once the map exists (the value chosen at creation
                      \* from the parameter is design: BucketsFromParam, reported as drift below)
                      (IF ~IsNone(P) /\ P.n # S.n THEN {"C07.n"} ELSE {})
                one == ~IsNone(P) /\ sinc[1] = 1 /\ sinc[2] # 0     \* (a bulk call counts as one update of "key 0": no step conjuncts)
                stepf == IF one THEN StepFails(P, DP, S, D, sinc[2]) ELSE {}
                pk0 == Get0(aux.peak, m, NoPeak)
                \* the peak of simultaneously used slots is only known while every update is followed by a
                \* decoded state; after a gap the bound is re-based on the slots that exist now
                gap == sinc[1] > 1
                pk  == IF ~wf THEN pk0
                       ELSE IF pk0.k = <<>> \/ gap THEN PeakOf(S, D, TRUE) ELSE MergePeak(pk0, PeakOf(S, D, FALSE))
                bf == IF pk0.k = <<>> \/ pk.k = <<>> \/ ~wf \/ gap THEN {} ELSE BoundFails(S, pk)
                pred == Get0(st, m, NoneS)
                \* the decoder's native monitor mirrors the formulas: both must agree on whether the
                \* state is structurally sound at all (a disagreement is a tool error, never a verdict)
                \* (with an unreadable header the formulas stop at C12.header, the monitor goes on: nothing to compare)
                nf == IF Has(e, "native") /\ "C12.header" \notin sf THEN
                         IF (Len(e.native.fails) = 0) = ({x \in sf : x \notin {"C05.content", "C12.header", "C12.placement", "C07.n"}} = {})
                         THEN {} ELSE {"TOOL.native_disagrees"}
                      ELSE {}
                \* the raw bytes of a small image, decoded by the format module itself (AbyFormat): both
                \* decoders must arrive at the same raw interpretation
                ff == IF Has(e, "raw") THEN FmtDiff(e.st, FmtDecode(e.raw.htx, e.raw.key, e.raw.val, 1000000)) ELSE {}
            IN [base EXCEPT !.fails = sf \cup stepf \cup bf \cup nf \cup ff,
                            !.drift = IF ~IsNone(pred) /\ pred # S THEN ToJson(DiffS(pred, S))
                                      ELSE IF m \in DOMAIN meta /\ meta[m].n # S.n THEN "stored bucket count differs from BucketsFromParam(creation parameter)"
                                      ELSE IF e.st.hdr_zero # <<TRUE, TRUE, TRUE>> THEN "reserved header bytes are not zero"
                                      ELSE IF wf /\ FreeOKD(S, D) /\ ~PadOKD(S, D) THEN "bytes behind a record are not zero"
                                      ELSE IF ~(ClassSizesOK(S.kf) /\ ClassSizesOK(S.vf)) THEN "a slot size is not one of the design's class values"
                                      ELSE "",
                            \* (an image whose header is unreadable says nothing about the bucket count)
                            !.meta = IF m \in DOMAIN meta /\ S.n > 0 THEN Set(meta, m, [meta[m] EXCEPT !.n = S.n]) ELSE meta,
                            \* the design layer is advanced only from a sound state (its operators are partial on
                            \* corrupt structures); an unsound logged state stops the prediction until the next one
                            !.st = Set(st, m, IF sf \ {"C05.content", "C07.n"} = {} THEN S ELSE NoneS), !.last = Set(last, m, S),
                            !.aux = [aux EXCEPT !.peak = Set(aux.peak, m, pk), !.since = Set(aux.since, m, <<0, 0>>)],
                            !.tally = IF one /\ ChainsOKD(P, DP) /\ ChainsOKD(S, D) THEN Tally(P, DP, S, D, sinc[2]) ELSE <<>>]
      [] e.ev = "stats" ->
            IF e.outcome # "ok" THEN [base EXCEPT !.fails = OutcomeFails(e) \cup {"C06.stats_terminate"}]
            ELSE LET P == Get0(last, m, NoneS) IN
                 [base EXCEPT !.fails = (IF ~IsNone(P) /\ sinc[1] = 0 THEN StatsFails(e.res, P) ELSE {})
                                        \cup StatsModelFails(e.res, m)]
      [] e.ev = "digest" \/ e.ev = "phys" ->
            [base EXCEPT !.aux = [aux EXCEPT !.dg = Set(aux.dg, Fld(e, "tag", "-"), e.dg)]]
      [] e.ev = "note" /\ Has(e, "same") ->
            \* two recorded digests must be equal; the conjunct name is one of a fixed set
            \* ("only": the files - 1 htx, 2 key, 3 val - the statement speaks about; a file that was absent
            \*  or empty before a refused open is outside C13's quantifier and may be created)
            LET a0 == Get0(aux.dg, e.same[1], <<"?a">>)
                b0 == Get0(aux.dg, e.same[2], <<"?b", "?">>)
                sel == IF Has(e, "only") THEN {e.only[j] : j \in DOMAIN e.only} ELSE {}
                \* ("lens": only the LENGTHS of the files are compared - C06.bounded: updates that need no new slot
                \*  must not make a file longer)
                lensonly == Has(e, "lens")
                pr(x) == IF lensonly THEN [j \in DOMAIN x |-> IF Has(x[j], "len") THEN x[j].len ELSE -7] ELSE x
                a1 == IF sel = {} THEN a0 ELSE [j \in sel \cap DOMAIN a0 |-> a0[j]]
                b1 == IF sel = {} THEN b0 ELSE [j \in sel \cap DOMAIN b0 |-> b0[j]]
                a == pr(a1)
                b == pr(b1)
            IN [base EXCEPT !.fails = IF a = b \/ e.conj = "C12.stable" THEN {} ELSE
                    IF e.conj \in {"C11.others", "C11.solo", "C13.unchanged", "C15.bytes", "C18.equal", "C06.bounded"} THEN {e.conj} ELSE {"TOOL.bad_conj"},
                            \* byte-identical re-creation of a released image is more than C12 demands (layout and
                            \* placement are documented, the order inside a chain or the choice of a free slot is not)
                            !.drift = IF a # b /\ e.conj = "C12.stable" THEN "the stored history no longer reproduces the released image byte for byte" ELSE "",
                            \* the two digests are used up
                            !.aux = [aux EXCEPT !.dg = [t \in (DOMAIN aux.dg) \ {e.same[1], e.same[2]} |-> aux.dg[t]]]]
      [] e.ev = "conv" ->
            \* C10: integer -> key bytes by value and by reference, and back (AbyCodec)
            [base EXCEPT !.fails =
                \* the released ENCODING of an integer key (u64/i64 little endian, vu64) is C12's business (files written by
                \* the release must stay addressable); C10 itself demands the round trip and the agreement only
                (IF e.byv = KeyBytesOf(e.kt, e.x4) THEN {} ELSE {"C12.key_bytes"})
                \cup (IF e.byr = e.byv THEN {} ELSE {"C10.conv_agree"})
                \cup (IF e.kt \in {"u64", "i64", "vu64"} /\ e.back4 # e.x4 THEN {"C10.conv_back"} ELSE {})
                \cup (IF e.kt \in {"u64", "i64", "vu64"} /\ IntBackOf(e.kt, e.byv) # e.x4 THEN {"C10.conv_back"} ELSE {})]
      [] e.ev = "hash" ->
            \* C12: the crate's own placement hash of a table key equals the documented one
            [base EXCEPT !.fails = IF e.h30 = TrKH[e.k] THEN {} ELSE {"C12.placement"}]
      [] e.ev = "bfs_load" ->
            \* breadth-first exploration of the real state graph: the files of an already visited state
            \* were restored; the model continues from what the decoder reads in them
            LET S == FromJson(e.st)
                D == Derive(S)
            IN [base EXCEPT !.mem = Set(mem, m, IF ChainsOKD(S, D) /\ ValRefsOKD(S, D) THEN AbsMapD(S, D) ELSE Unknown),
                            !.meta = Set(meta, m, [kt |-> e.kt, n |-> e.n, dir |-> e.dir, foreign |-> FALSE, open |-> FALSE]),
                            !.st = Set(st, m, IF StateFails(e.st, S, D, "-") = {} THEN S ELSE NoneS), !.last = Set(last, m, S),
                            !.aux = [aux EXCEPT !.dur = Set(aux.dur, m, TRUE), !.synced = Set(aux.synced, m, FALSE),
                                                !.peak = Set(aux.peak, m, NoPeak), !.since = Set(aux.since, m, <<0, 0>>)]]
      [] e.ev = "load" ->
            \* a released image with known contents is installed (golden image, C12)
            [base EXCEPT !.mem = Set(mem, m, ContentMap(e.content)),
                         !.meta = Set(meta, m, [kt |-> e.kt, n |-> e.n, dir |-> e.dir, foreign |-> FALSE, open |-> FALSE]),
                         !.st = Set(st, m, NoneS), !.last = Set(last, m, NoneS),
                         !.aux = [aux EXCEPT !.dur = Set(aux.dur, m, TRUE), !.synced = Set(aux.synced, m, FALSE)]]
      [] e.ev = "probe_val" ->
            \* C09: the crate's own slot decision (layout-probe hook), run-length encoded over [from, to],
            \* against AbyLayout for EVERY length of the range; the runs must tile the range
            LET R == e.runs IN
            [base EXCEPT !.fails =
                (IF /\ Len(R) > 0 /\ R[1][1] = e.from /\ R[Len(R)][2] = e.to
                    /\ \A i \in 1..(Len(R) - 1) : R[i + 1][1] = R[i][2] + 1
                 THEN {} ELSE {"TOOL.probe_runs"})
                \* the property: the slot the CRATE reserves holds the record the crate writes into it
                \cup (IF \A i \in 1..Len(R) : \A x \in R[i][1]..R[i][2] : ValActual(x, R[i][3]) <= R[i][3] /\ R[i][3] % 8 = 0 /\ R[i][3] >= 16
                      THEN {} ELSE {"C09.fits"}),
                         \* design fidelity: the crate's arithmetic is AbyLayout's, for every length
                         !.drift = IF \A i \in 1..Len(R) : \A x \in R[i][1]..R[i][2] : ValSlot(x) = R[i][3] /\ ValEnc(x) = R[i][4]
                                   THEN "" ELSE "value slot arithmetic of the crate differs from AbyLayout"]
      [] e.ev = "probe_key" ->
            LET R == e.runs IN
            [base EXCEPT !.fails =
                (IF /\ Len(R) > 0 /\ R[1][1] = e.from /\ R[Len(R)][2] = e.to
                    /\ \A i \in 1..(Len(R) - 1) : R[i + 1][1] = R[i][2] + 1
                 THEN {} ELSE {"TOOL.probe_runs"})
                \cup (IF \A i \in 1..Len(R) : \A x \in R[i][1]..R[i][2] :
                            KeyActual(x, e.voff, e.nxt, R[i][3]) <= R[i][3] /\ R[i][3] % 8 = 0 /\ FreeActual(R[i][3]) <= R[i][3]
                      THEN {} ELSE {"C09.fits"}),
                         !.drift = IF \A i \in 1..Len(R) : \A x \in R[i][1]..R[i][2] : KeySlot(x, e.voff, e.nxt) = R[i][3] /\ KeyEnc(x, e.voff, e.nxt) = R[i][4]
                                   THEN "" ELSE "key slot arithmetic of the crate differs from AbyLayout"]
      [] e.ev = "mutate_file" ->
            \* a signature byte of one of the files was changed / a foreign file swapped in
            LET mid == e.map IN
            IF mid \in DOMAIN meta THEN [base EXCEPT !.meta = Set(meta, mid, [meta[mid] EXCEPT !.foreign = e.foreign])] ELSE base
      [] e.ev = "read_fill_buffer" ->
            \* C15: no effect on the contract state; must succeed on a healthy file system
            [base EXCEPT !.fails = OutcomeFails(e)]
      [] OTHER -> base

\* binding of AbyReg!OneInstance (hook verif_instance_id): every handle obtained for a map name while the
\* database is open - first lookup, repeated lookup with or without parameters, through a cloned database
\* handle, clone of a handle - denotes ONE buffered instance (design drift otherwise, not a verdict)
InstStep(e, a) ==
    IF e.ev \in {"drop_all", "new_process", "kill_here", "open_db", "reset"} THEN [inst |-> <<>>, fails |-> {}]
    ELSE IF e.ev \in {"map", "clone_h"} /\ Has(e, "inst") /\ Has(e, "m") /\ e.outcome = "ok"
    THEN IF e.m \in DOMAIN a.inst
         THEN [inst |-> a.inst, fails |-> IF a.inst[e.m] = e.inst THEN {} ELSE {"DRIFT.one_instance"}]
         ELSE [inst |-> Set(a.inst, e.m, e.inst), fails |-> {}]
    ELSE [inst |-> a.inst, fails |-> {}]

Next ==
    /\ l < NRec
    /\ l' = l + 1
    /\ LET e == Rec[l + 1] IN
       \* (after a call that did not return, the history is not judged any further - except for the observations of the
       \*  FILES the script marks "always": digests and their comparison, taken by a fresh process)
       IF skip /\ e.ev # "reset" /\ ~(e.ev \in {"digest", "note"} /\ Has(e, "always")) THEN UNCHANGED <<mem, meta, st, last, aux, skip, nfail>>
       ELSE IF e.ev = "aborted" THEN UNCHANGED <<mem, meta, st, last, aux, nfail>> /\ skip' = TRUE
       ELSE IF e.outcome \in {"panic", "hang"} /\ ~(e.ev \in {"map", "child_dump"})
       THEN \* the call did not return: C01.outcome (attributed by the check to its own property)
            /\ PrintT(<<"VERDICT", ToJson([l |-> l + 1, i |-> Fld(e, "i", -1), hist |-> aux.hist,
                                           conj |-> IF e.ev = "stats" THEN {"C01.outcome", "C06.stats_terminate"} ELSE {"C01.outcome"},
                                           ev |-> e.ev, outcome |-> e.outcome, msg |-> Fld(e, "msg", "-"), m |-> Fld(e, "m", "-"), tag |-> Fld(e, "tag", "-")])>>)
            /\ skip' = TRUE /\ nfail' = nfail + 1
            /\ UNCHANGED <<mem, meta, st, last, aux>>
       ELSE LET r0 == Proc(e)
                is == InstStep(e, r0.aux)
                \* a second buffered instance is a departure from the DESIGN (AbyReg!OneInstance), reported as drift: the
                \* property (C11) is judged by what the handles observe
                r  == [r0 EXCEPT !.drift = IF is.fails # {} /\ @ = "" THEN "a second buffered instance behind a handle of an open map (AbyReg!OneInstance)" ELSE @,
                                 !.aux = [@ EXCEPT !.inst = is.inst]]
            IN
            /\ mem' = r.mem /\ meta' = r.meta /\ st' = r.st /\ last' = r.last
            /\ aux' = IF r.fails # {} /\ e.ev # "reset" THEN [r.aux EXCEPT !.nf = r.aux.nf + 1] ELSE r.aux
            /\ IF r.fails # {}
               THEN /\ PrintT(<<"VERDICT", ToJson([l |-> l + 1, i |-> Fld(e, "i", -1), hist |-> aux.hist, conj |-> r.fails,
                                                   ev |-> e.ev, outcome |-> Fld(e, "outcome", "-"), msg |-> Fld(e, "msg", "-"),
                                                   m |-> Fld(e, "m", "-"), kt |-> Fld(e, "kt", "-"), tag |-> Fld(e, "tag", "-"),
                                                   mkt |-> IF Fld(e, "m", "-") \in DOMAIN meta THEN meta[e.m].kt ELSE "-"])>>)
                    \* the contract state does not depend on the implementation, so the history goes on
                    \* (the design state is re-based on the logged one); a flood is cut after 25 verdicts
                    /\ skip' = (aux.nf >= 24) /\ nfail' = nfail + 1
               ELSE skip' = FALSE /\ nfail' = nfail
            /\ IF r.drift = "" THEN TRUE
               ELSE PrintT(<<"SPEC-DRIFT", ToJson([l |-> l + 1, i |-> Fld(e, "i", -1), hist |-> aux.hist, what |-> r.drift])>>)
            /\ IF r.tally = <<>> THEN TRUE
               ELSE PrintT(<<"TALLY", ToJson(r.tally)>>)

Spec == Init /\ [][Next]_vars

\* acceptance: every event was consumed (one TLC state per event plus the initial state)
Accepted ==
    /\ Assert(HashTableOK, "TOOL: placement hash recomputed in TLC (AbyHash) differs from the decoder's re-implementation")
    /\ Assert(CodecTableOK, "TOOL: key bytes of an integer key in the tables differ from AbyCodec")
    /\ IF TLCGet("stats").diameter - 1 = NRec THEN PrintT(<<"TRACE-DONE", NRec>>)
       ELSE PrintT(<<"TRACE-STUCK", TLCGet("stats").diameter - 1, NRec>>) /\ FALSE
=============================================================================
