SPECIFICATION Spec
CONSTANTS
  MaxV = 16777216
  MaxK = 65536
CHECK_DEADLOCK FALSE
