SPECIFICATION Spec
CONSTANTS
  N = 256
  MaxOcc = 3
  Fixed = TRUE
  AllSubsets = FALSE
INVARIANT ScanOK
CHECK_DEADLOCK FALSE
