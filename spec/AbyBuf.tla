--------------------------- MODULE AbyBuf ---------------------------
(* Design layer of buffering and durability (C02, C03, C07, C16): the three files of a map   *)
(* behind rabuf's chunk cache, and the map-level dirty flag that gates flush/sync.           *)
(* Anchors: rabuf 0.1.20 (fetch_chunk/add_chunk: evict-all on overflow, chunk 0 pinned;       *)
(* flush: dirty chunks in offset order, stops at the first failing write; Drop flushes and    *)
(* ignores errors), vfile.rs, dbxxx.rs flush/sync_all/sync_data (order val, key, htx; `dirty` *)
(* cleared only after all three succeeded), put_kt/del_kt (raise `dirty`).                    *)
(* A chunk's content is abstracted to a version counter.  A write fault has the shape of      *)
(* RLIMIT_FSIZE: writes to chunks at or behind `limit` are refused.                           *)
EXTENDS Integers, FiniteSets, Sequences, TLC

CONSTANTS NChunks,     \* chunks per file
          Cap,         \* cache capacity in chunks (>= 2: chunk 0 is pinned)
          MaxUpd,      \* bound on the number of updates
          MarkDirty,   \* TRUE: updates raise the map's dirty flag (repaired code); FALSE: pinned tree (D1)
          ClearEarly   \* TRUE: the dirty flag is cleared before the three flushes (a seeded defect class)

Files == <<"val", "key", "htx">>          \* flush order
FileSet == {"val", "key", "htx"}
Chunks == 0..(NChunks - 1)

VARIABLES logical, disk, cached, dirtyc, mdirty, limit, last, nupd, broken
vars == <<logical, disk, cached, dirtyc, mdirty, limit, last, nupd, broken>>

Init == /\ logical = [f \in FileSet |-> [c \in Chunks |-> 0]]
        /\ disk = logical
        /\ cached = [f \in FileSet |-> {}]
        /\ dirtyc = [f \in FileSet |-> {}]
        /\ mdirty = MarkDirty        \* open_with_params: the headers of new files are still buffered
        /\ limit = NChunks /\ last = "none" /\ nupd = 0 /\ broken = FALSE

Refused(c) == c >= limit

\* write the dirty chunks of one file in offset order, stopping at the first refused write:
\* <<disk-of-file', dirty-of-file', ok?>>
FlushFile(f, dk, dc) ==
    LET bad == {c \in dc : Refused(c)}
        wr == {c \in dc : \A b \in bad : c < b}       \* the dirty chunks in front of the first refused one
    IN <<[c \in Chunks |-> IF c \in wr THEN logical[f][c] ELSE dk[c]], dc \ wr, bad = {}>>

\* access to chunk c of file f by an update: load it (evicting everything but chunk 0 when the
\* cache is full), then modify it.  Returns [disk, cached, dirty, ok]
Touch(f, c, dk, ca, dc) ==
    IF c \in ca THEN [disk |-> dk, cached |-> ca, dirty |-> dc \cup {c}, ok |-> TRUE]
    ELSE IF Cardinality(ca) < Cap THEN [disk |-> dk, cached |-> ca \cup {c}, dirty |-> dc \cup {c}, ok |-> TRUE]
    ELSE LET fl == FlushFile(f, dk, dc) IN          \* remove_chunks: clear() = flush + drop all but chunk 0
         IF ~fl[3] THEN [disk |-> fl[1], cached |-> ca, dirty |-> fl[2], ok |-> FALSE]
         ELSE [disk |-> fl[1], cached |-> (ca \cap {0}) \cup {c}, dirty |-> {c}, ok |-> TRUE]

\* one put/delete: one chunk of each file is modified
Update(cv, ck, ch) ==
    /\ ~broken /\ nupd < MaxUpd
    /\ LET tv == Touch("val", cv, disk["val"], cached["val"], dirtyc["val"])
           tk == Touch("key", ck, disk["key"], cached["key"], dirtyc["key"])
           th == Touch("htx", ch, disk["htx"], cached["htx"], dirtyc["htx"])
       IN IF tv.ok /\ tk.ok /\ th.ok
          THEN /\ logical' = [f \in FileSet |-> [c \in Chunks |->
                                IF (f = "val" /\ c = cv) \/ (f = "key" /\ c = ck) \/ (f = "htx" /\ c = ch)
                                THEN logical[f][c] + 1 ELSE logical[f][c]]]
               /\ disk' = [f \in FileSet |-> CASE f = "val" -> tv.disk [] f = "key" -> tk.disk [] OTHER -> th.disk]
               /\ cached' = [f \in FileSet |-> CASE f = "val" -> tv.cached [] f = "key" -> tk.cached [] OTHER -> th.cached]
               /\ dirtyc' = [f \in FileSet |-> CASE f = "val" -> tv.dirty [] f = "key" -> tk.dirty [] OTHER -> th.dirty]
               /\ mdirty' = (mdirty \/ MarkDirty)
               /\ last' = "update" /\ nupd' = nupd + 1 /\ UNCHANGED <<limit, broken>>
          ELSE \* an eviction write was refused in the middle of an update: the call fails, the
               \* history ends (C16 speaks about failures of flush only)
               /\ broken' = TRUE /\ last' = "update_err"
               /\ UNCHANGED <<logical, disk, cached, dirtyc, mdirty, limit, nupd>>

\* flush(): skipped when the map is not dirty; else val, key, htx in this order, `dirty`
\* cleared only when all three succeeded
Flush ==
    /\ ~broken
    /\ IF ~mdirty
       THEN last' = "flush_ok" /\ UNCHANGED <<logical, disk, cached, dirtyc, mdirty, limit, nupd, broken>>
       ELSE LET fv == FlushFile("val", disk["val"], dirtyc["val"])
                fk == IF fv[3] THEN FlushFile("key", disk["key"], dirtyc["key"]) ELSE <<disk["key"], dirtyc["key"], FALSE>>
                fh == IF fk[3] THEN FlushFile("htx", disk["htx"], dirtyc["htx"]) ELSE <<disk["htx"], dirtyc["htx"], FALSE>>
                ok == fv[3] /\ fk[3] /\ fh[3]
            IN /\ disk' = [f \in FileSet |-> CASE f = "val" -> fv[1] [] f = "key" -> fk[1] [] OTHER -> fh[1]]
               /\ dirtyc' = [f \in FileSet |-> CASE f = "val" -> fv[2] [] f = "key" -> fk[2] [] OTHER -> fh[2]]
               /\ mdirty' = IF ClearEarly THEN FALSE ELSE ~ok
               /\ last' = IF ok THEN "flush_ok" ELSE "flush_err"
               /\ UNCHANGED <<logical, cached, limit, nupd, broken>>

SetFault(t) == /\ ~broken /\ limit = NChunks /\ limit' = t
               /\ last' = "none" /\ UNCHANGED <<logical, disk, cached, dirtyc, mdirty, nupd, broken>>
LiftFault == /\ ~broken /\ limit # NChunks /\ limit' = NChunks
             /\ last' = "none" /\ UNCHANGED <<logical, disk, cached, dirtyc, mdirty, nupd, broken>>

\* all handles dropped: every file buffer flushes, errors are ignored (rabuf Drop)
Drop ==
    /\ ~broken /\ last # "drop"
    /\ LET fl(f) == FlushFile(f, disk[f], dirtyc[f]) IN
       /\ disk' = [f \in FileSet |-> fl(f)[1]]
       /\ dirtyc' = [f \in FileSet |-> {}] /\ cached' = [f \in FileSet |-> {}]
    /\ last' = "drop" /\ broken' = TRUE          \* end of the session
    /\ UNCHANGED <<logical, mdirty, limit, nupd>>

Next == \/ \E cv, ck, ch \in Chunks : Update(cv, ck, ch)
        \/ Flush \/ Drop \/ LiftFault
        \/ \E t \in Chunks : SetFault(t)
Spec == Init /\ [][Next]_vars

(* invariants *)
TypeOK == \A f \in FileSet : dirtyc[f] \subseteq cached[f] /\ Cardinality(cached[f]) <= Cap
\* C07: what is not in the cache is current on disk (reads after eviction see the last write)
ReadYourWrites == last # "drop" => \A f \in FileSet : \A c \in Chunks \ cached[f] : disk[f][c] = logical[f][c]
\* the disk differs from the logical content only in dirty cached chunks
Covered == last # "drop" => \A f \in FileSet : \A c \in Chunks : disk[f][c] # logical[f][c] => c \in dirtyc[f]
\* C03: flush = ok  =>  every update so far is on disk.  (Contrapositive, C16: a flush that
\* wrote too little must not say ok.)
FlushDurable == last = "flush_ok" => disk = logical
\* C16: after a failed flush the map stays dirty, so that a later flush writes the rest
FlushErrKeeps == last = "flush_err" => mdirty
\* C02: a clean close without a fault leaves everything on disk
DropDurable == (last = "drop" /\ limit = NChunks) => disk = logical
=============================================================================
