SPECIFICATION Spec
CONSTANTS
  N = 128
  MaxOcc = 3
  Fixed = TRUE
  AllSubsets = FALSE
INVARIANT ScanOK
CHECK_DEADLOCK FALSE
