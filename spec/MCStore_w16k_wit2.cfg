SPECIFICATION Spec
CONSTANTS
  NB = 2
  Keys = {1, 2, 3}
  Vals = {1, 2}
  KLen <- MC_KLen
  VLen <- MC_VLen
  KH <- MC_KH
  Prefix <- MC_Prefix
PROPERTY NoOtherMove2
CHECK_DEADLOCK FALSE
