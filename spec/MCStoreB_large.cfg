SPECIFICATION Spec
CONSTANTS
  NB = 1
  Keys = {1, 2}
  Vals = {3, 4}
  KLen <- MC_KLen
  VLen <- MC_VLen
  KH <- MC_KH
INVARIANTS LargeBoundFalse
CHECK_DEADLOCK FALSE
