--------------------------- MODULE AbyMap ---------------------------
(* Contract layer: the ideal in-memory map a user may rely on (C01), with the results of  *)
(* every call.  Keys and values are ids; 0 (NoneId) stands for "absent" / None.           *)
(* A map is a function from the set of live key ids to value ids.                         *)
EXTENDS Integers, FiniteSets, Sequences, SequencesExt, TLC

NoneId == 0
EmptyMap == <<>>

MGet(m, k)      == IF k \in DOMAIN m THEN m[k] ELSE NoneId
MIncludes(m, k) == k \in DOMAIN m
MLen(m)         == Cardinality(DOMAIN m)
MIsEmpty(m)     == DOMAIN m = {}
MPut(m, k, v)   == (k :> v) @@ m
\* <<map', removed value or NoneId>>
MDel(m, k)      == <<[x \in (DOMAIN m) \ {k} |-> m[x]], MGet(m, k)>>

(* iteration contract (C04): the yielded pairs are exactly the live entries, each once;   *)
(* `items` is the sequence of <<key id, value id>> an iterator produced                   *)
ItemsAreMap(items, m) ==
    /\ Len(items) = MLen(m)
    /\ \A i \in 1..Len(items) : items[i][1] \in DOMAIN m /\ m[items[i][1]] = items[i][2]
    /\ Cardinality({items[i][1] : i \in 1..Len(items)}) = Len(items)          \* no key twice
\* keys() / values() flavours: projections, as multisets
KeysAreMap(keys, m) ==
    /\ Len(keys) = MLen(m)
    /\ \A i \in 1..Len(keys) : keys[i] \in DOMAIN m
    /\ Cardinality({keys[i] : i \in 1..Len(keys)}) = Len(keys)
ValuesAreMap(vals, m) ==
    LET dom == SetToSeq(DOMAIN m)
        mv  == [i \in 1..Len(dom) |-> m[dom[i]]]          \* the values of the map, each looked up once
    IN /\ Len(vals) = Len(mv)
       /\ \A v \in {vals[i] : i \in 1..Len(vals)} \cup {mv[i] : i \in 1..Len(mv)} :
             Cardinality({i \in 1..Len(vals) : vals[i] = v}) = Cardinality({i \in 1..Len(mv) : mv[i] = v})
\* size hints: before step i (1-based, i = 1..len+1) the hint is (len-i+1, Some(len-i+1))
HintsExact(hints, n) == /\ Len(hints) = n + 1
                        /\ \A i \in 1..(n + 1) : hints[i] = n - i + 1

(* bulk calls (C14), element-wise *)
RECURSIVE MPutAll(_, _)
MPutAll(m, pairs) == IF pairs = <<>> THEN m
                     ELSE MPutAll(MPut(m, Head(pairs)[1], Head(pairs)[2]), Tail(pairs))
MGetAll(m, keys) == [i \in 1..Len(keys) |-> MGet(m, keys[i])]
\* element-wise delete in batch order: <<map', results>>
RECURSIVE MDelAllAcc(_, _, _)
MDelAllAcc(m, keys, acc) == IF keys = <<>> THEN <<m, acc>>
                            ELSE LET d == MDel(m, Head(keys)) IN MDelAllAcc(d[1], Tail(keys), Append(acc, d[2]))
MDelAll(m, keys) == MDelAllAcc(m, keys, <<>>)
NoRepeats(keys) == \A i, j \in 1..Len(keys) : keys[i] = keys[j] => i = j
=============================================================================
