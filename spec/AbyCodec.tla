--------------------------- MODULE AbyCodec ---------------------------
(* Integer <-> key-bytes conversions of the typed key types (kt_dbu64.rs, kt_dbi64.rs,        *)
(* kt_dbvu64.rs) and the vu64 format (vu64 0.1.11).  64-bit integers are four 16-bit limbs,    *)
(* w[1] least significant (the harness logs the two's complement bit pattern for i64).        *)
EXTENDS Integers, Sequences, AbyHash

ByteOf(w, j) == LET lim == w[(j \div 2) + 1] IN IF j % 2 = 0 THEN lim % 256 ELSE lim \div 256   \* j = 0..7, LE
U64LE(w) == [j \in 1..8 |-> ByteOf(w, j - 1)]          \* DbU64::from(u64), DbI64::from(i64)
U64BE(w) == [j \in 1..8 |-> ByteOf(w, 8 - j)]          \* DbString / DbBytes from an integer
\* bytes (LE, up to 8, shorter ones zero-extended; longer ones cut at 8) -> word  (From<&DbU64> for u64)
FromLE(bs) == LET b(j) == IF j < Len(bs) /\ j < 8 THEN bs[j + 1] ELSE 0 IN
              [i \in 1..4 |-> b(2 * (i - 1)) + 256 * b(2 * (i - 1) + 1)]

BitLen16(x) == IF x = 0 THEN 0 ELSE IF x < 2 THEN 1 ELSE IF x < 4 THEN 2 ELSE IF x < 8 THEN 3
               ELSE IF x < 16 THEN 4 ELSE IF x < 32 THEN 5 ELSE IF x < 64 THEN 6 ELSE IF x < 128 THEN 7
               ELSE IF x < 256 THEN 8 ELSE IF x < 512 THEN 9 ELSE IF x < 1024 THEN 10 ELSE IF x < 2048 THEN 11
               ELSE IF x < 4096 THEN 12 ELSE IF x < 8192 THEN 13 ELSE IF x < 16384 THEN 14 ELSE IF x < 32768 THEN 15 ELSE 16
BitLen(w) == IF w[4] # 0 THEN 48 + BitLen16(w[4]) ELSE IF w[3] # 0 THEN 32 + BitLen16(w[3])
             ELSE IF w[2] # 0 THEN 16 + BitLen16(w[2]) ELSE BitLen16(w[1])
\* total bytes of the vu64 encoding: 7 payload bits per byte up to 8 bytes, 9 bytes above 56 bits
Vu64Len(w) == LET b == BitLen(w) IN
              IF b <= 7 THEN 1 ELSE IF b <= 14 THEN 2 ELSE IF b <= 21 THEN 3 ELSE IF b <= 28 THEN 4
              ELSE IF b <= 35 THEN 5 ELSE IF b <= 42 THEN 6 ELSE IF b <= 49 THEN 7 ELSE IF b <= 56 THEN 8 ELSE 9
\* prefix of (L-1) one bits followed by a zero bit, in the first byte
Vu64Prefix(L) == 256 - Pow2(9 - L)
Vu64Enc(w) == LET L == Vu64Len(w) IN
    IF L = 1 THEN <<w[1] % 256>>
    ELSE IF L = 8 THEN <<254>> \o [j \in 1..7 |-> ByteOf(w, j - 1)]
    ELSE IF L = 9 THEN <<255>> \o [j \in 1..8 |-> ByteOf(w, j - 1)]
    ELSE LET low  == (w[1] % 256) % Pow2(8 - L)       \* low (8-L) payload bits live in the first byte
             rest == WShr(w, 8 - L)
         IN <<Vu64Prefix(L) + low>> \o [j \in 1..(L - 1) |-> ByteOf(rest, j - 1)]
LeadingOnes(b) == IF b < 128 THEN 0 ELSE IF b < 192 THEN 1 ELSE IF b < 224 THEN 2 ELSE IF b < 240 THEN 3
                  ELSE IF b < 248 THEN 4 ELSE IF b < 252 THEN 5 ELSE IF b < 254 THEN 6 ELSE IF b < 255 THEN 7 ELSE 8
Vu64Dec(bs) == LET L == LeadingOnes(bs[1]) + 1 IN
    IF L = 1 THEN <<bs[1], 0, 0, 0>>
    ELSE IF L >= 8 THEN FromLE(SubSeq(bs, 2, L))
    ELSE LET follow == FromLE(SubSeq(bs, 2, L))
             sh == WShl(follow, 8 - L)
         IN <<sh[1] + (bs[1] % Pow2(8 - L)), sh[2], sh[3], sh[4]>>

\* what a typed key type makes of the integer w
KeyBytesOf(kt, w) == CASE kt = "u64" -> U64LE(w) [] kt = "i64" -> U64LE(w) [] kt = "vu64" -> Vu64Enc(w) [] OTHER -> U64BE(w)
IntBackOf(kt, bs) == CASE kt = "u64" -> FromLE(bs) [] kt = "i64" -> FromLE(bs) [] kt = "vu64" -> Vu64Dec(bs) [] OTHER -> WZero
=============================================================================
