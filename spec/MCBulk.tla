--------------------------- MODULE MCBulk ---------------------------
(* C14 on the model: for every map over 3 keys x 2 values and every batch of length <= 4, the      *)
(* bulk operators as the code computes them (AbyBulk) equal the element-wise folds (AbyMap) for     *)
(* the batches the property allows (bulk_put / bulk_delete: no repeated key; bulk_get: any).        *)
EXTENDS AbyBulk
K == {1, 2, 3}
V == {1, 2}
Maps == UNION {[S -> V] : S \in SUBSET K}
Batches == UNION {[1..n -> K] : n \in 0..4}
ValsOf(n) == [1..n -> V]
GetOK == \A m \in Maps : \A b \in Batches : BulkGet(m, b) = M!MGetAll(m, b)
DelOK == \A m \in Maps : \A b \in Batches : M!NoRepeats(b) => BulkDel(m, b) = M!MDelAll(m, b)
\* with repeated keys the final map is still the element-wise one (every listed key is gone)
DelFinalOK == \A m \in Maps : \A b \in Batches : BulkDel(m, b)[1] = M!MDelAll(m, b)[1]
PutOK == \A m \in Maps : \A b \in Batches : M!NoRepeats(b) =>
            \A vs \in ValsOf(Len(b)) : BulkPut(m, b, vs) = M!MPutAll(m, [i \in 1..Len(b) |-> <<b[i], vs[i]>>])
\* witness: with a repeated key bulk_put is NOT the element-wise result (why the property excludes it)
PutRepeatDiffers == \E m \in Maps : \E b \in Batches : ~M!NoRepeats(b) /\
            \E vs \in ValsOf(Len(b)) : BulkPut(m, b, vs) # M!MPutAll(m, [i \in 1..Len(b) |-> <<b[i], vs[i]>>])
ASSUME GetOK /\ DelOK /\ DelFinalOK /\ PutOK /\ PutRepeatDiffers /\ PrintT(<<"MCBulk maps x batches", Cardinality(Maps), Cardinality(Batches)>>)
VARIABLE x
Init == x = 0
Next == x' = x
Spec == Init /\ [][Next]_x
=============================================================================
