--------------------------- MODULE AbyLayout ---------------------------
(* Record layout arithmetic of abyssiniandb 0.1.4: the slot arithmetic proper lives in          *)
(* AbyLayoutArith (no recursive operators, so that TLAPS can reason about it: proofs/), this     *)
(* module adds the bucket count chosen from the creation parameter (htx.rs:51-126).             *)
EXTENDS AbyLayoutArith

(* bucket count from the creation parameter (htx.rs:51-68, 109-113) *)
RECURSIVE Pow2AtLeast(_, _)
Pow2AtLeast(x, p) == IF p >= x THEN p ELSE Pow2AtLeast(x, 2 * p)
NextPow2(x) == IF x <= 1 THEN 1 ELSE Pow2AtLeast(x, 1)
BucketsFromParam(kind, x) ==
    CASE kind = "BucketsSize" -> NextPow2(x)
      [] kind = "Capacity"    -> IF x < 8 THEN 8 ELSE NextPow2(x + x \div 8)
      [] OTHER                -> DefaultBuckets
\* length the .htx file is set to at creation
HtxLen(n) == HtxHdr + 8 * n + n \div 8

=============================================================================
