SPECIFICATION Spec
CONSTANTS
  NChunks = 3
  Cap = 2
  MaxUpd = 4
  MarkDirty = TRUE
  ClearEarly = FALSE
INVARIANTS TypeOK ReadYourWrites Covered FlushDurable FlushErrKeeps DropDurable
CHECK_DEADLOCK FALSE
