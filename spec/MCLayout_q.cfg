SPECIFICATION Spec
CONSTANTS
  MaxV = 70000
  MaxK = 3000
CHECK_DEADLOCK FALSE
