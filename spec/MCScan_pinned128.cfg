SPECIFICATION Spec
CONSTANTS
  N = 128
  MaxOcc = 2
  Fixed = FALSE
  AllSubsets = FALSE
INVARIANT ScanOK
CHECK_DEADLOCK FALSE
