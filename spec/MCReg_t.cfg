SPECIFICATION Spec
CONSTANTS
  Names = {"x", "y"}
  Types = {"string", "bytes", "u64"}
  Handles = {1, 2, 3, 4}
  Keys = {1}
  Vals = {1, 2}
  MaxInst = 3
  SigOf <- MC_SigDistinct
  AlwaysLookup = TRUE
INVARIANTS OneInstance Aliasing TypeSafe FlushDurable Registered
CHECK_DEADLOCK FALSE
