SPECIFICATION Spec
CONSTANTS
  Names = {"x", "y"}
  Types = {"string", "u64"}
  Handles = {1, 2, 3}
  Keys = {1}
  Vals = {1, 2}
  MaxInst = 3
  SigOf <- MC_SigDistinct
  AlwaysLookup = FALSE
PROPERTIES CloseDurable
CHECK_DEADLOCK FALSE
