SPECIFICATION Spec
CONSTANTS
  NB = 2
  Keys = {1, 2, 3, 4}
  Vals = {1, 2, 3, 4, 5}
  KLen <- MC_KLen
  VLen <- MC_VLen
  KH <- MC_KH
  Prefix <- MC_Prefix
INVARIANTS InvAll InvRefines InvDelResult InvStats InvBitmap InvIter
CHECK_DEADLOCK FALSE
