--------------------------- MODULE AbyScan ---------------------------
(* The occupancy-bitmap scan of htx.rs:376-421 (next_key_piece_offset) and the iterator    *)
(* loop of dbxxx.rs:403-489 (DbXxxIterMut), transcribed literally.  S is a store record of  *)
(* AbyStore: S.n buckets, S.heads (sparse, non-zero heads only), S.bm (set of buckets whose *)
(* bitmap bit is set), S.cnt, S.kf.slots.  Bits behind bucket n-1 lie behind the end of the *)
(* bitmap (and of the file) and read as zero.                                              *)
EXTENDS Integers, Sequences, FiniteSets

ZeroBits(bm, i, w) == bm \cap (i..(i + w - 1)) = {}

\* u64 strides: while byte_8 == 0 && idx + 8 < n { byte_8 = read_u64; idx += 64; stepped }
\* `fixed` = FALSE is the pinned (4b82afd) loop condition `idx < n - 8` in u64 arithmetic,
\* which wraps around for n < 8
RECURSIVE U64Loop(_, _, _, _, _, _)
U64Loop(n, bm, i, stepped, nz, fixed) ==
    LET cond == IF fixed THEN i + 8 < n ELSE (n < 8 \/ i < n - 8) IN
    IF ~nz /\ cond /\ i < n + 4096        \* (the pinned loop never ends for n < 8: cut off)
    THEN U64Loop(n, bm, i + 64, TRUE, ~ZeroBits(bm, i, 64), fixed)
    ELSE <<i, stepped>>
\* byte strides: while byte == 0 && idx < n { byte = read_u8; idx += 8 }
RECURSIVE ByteLoop(_, _, _, _)
ByteLoop(n, bm, i, nz) ==
    IF ~nz /\ i < n THEN ByteLoop(n, bm, i + 8, ~ZeroBits(bm, i, 8)) ELSE i

\* first bucket the head scan starts from
ScanStartV(n, bm, idx, fixed) ==
    IF idx % 8 # 0 THEN idx
    ELSE LET u  == U64Loop(n, bm, idx, FALSE, FALSE, fixed)
             \* fixed: step back only after a stride; pinned: whenever idx >= 64
             i1 == IF (IF fixed THEN u[2] ELSE u[1] >= 64) THEN u[1] - 64 ELSE u[1]
             i2 == ByteLoop(n, bm, i1, FALSE)
         IN i2 - 8
ScanStart(n, bm, idx) == ScanStartV(n, bm, idx, TRUE)

\* head scan: while off == 0 && idx < n { off = head[idx]; idx += 1 }  ->  <<idx, off>>
\* (closed form of the loop: the first non-empty bucket at or after s)
HeadScan(S, s) ==
    LET C == {b \in DOMAIN S.heads : b >= s /\ b < S.n} IN
    IF C = {} THEN <<IF s > S.n THEN s ELSE S.n, 0>>
    ELSE LET b == CHOOSE b \in C : \A c \in C : b <= c IN <<b + 1, S.heads[b]>>

NextKPOV(S, idx, fixed) == HeadScan(S, ScanStartV(S.n, S.bm, idx, fixed))
NextKPO(S, idx) == NextKPOV(S, idx, TRUE)

(* the iterator: state [rem, idx, koff] *)
RECURSIVE SeekBucket(_, _, _, _, _)
SeekBucket(S, idx, koff, fixed, fuel) ==
    IF koff = 0 /\ idx < S.n /\ fuel > 0
    THEN LET r == NextKPOV(S, idx, fixed) IN SeekBucket(S, r[1], r[2], fixed, fuel - 1)
    ELSE <<idx, koff>>

\* one call of next(): <<state', yielded key-slot offset or 0 for None>>
IterStepV(S, st, fixed) ==
    LET k1 == IF st.koff # 0 THEN S.kf.slots[st.koff].nxt ELSE 0
        r  == IF k1 = 0 THEN SeekBucket(S, st.idx, 0, fixed, S.n + 2) ELSE <<st.idx, k1>>
    IN IF r[2] = 0 \/ st.rem = 0
       THEN <<[st EXCEPT !.idx = r[1], !.koff = r[2]], 0>>
       ELSE <<[rem |-> st.rem - 1, idx |-> r[1], koff |-> r[2]], r[2]>>

RECURSIVE IterLoop(_, _, _, _, _, _)
IterLoop(S, st, offs, hints, fixed, fuel) ==
    LET r == IterStepV(S, st, fixed) IN
    IF r[2] = 0 \/ fuel = 0
    THEN \* after the end: two more calls must also answer None
         LET r2 == IterStepV(S, r[1], fixed)
             r3 == IterStepV(S, r2[1], fixed)
         IN [offs |-> offs, hints |-> Append(hints, st.rem), fused |-> (r2[2] = 0 /\ r3[2] = 0),
             ended |-> r[2] = 0]
    ELSE IterLoop(S, r[1], Append(offs, r[2]), Append(hints, st.rem), fixed, fuel - 1)

IterateV(S, fixed) ==
    LET it == IterLoop(S, [rem |-> S.cnt, idx |-> 0, koff |-> 0], <<>>, <<>>, fixed,
                       2 * Cardinality(DOMAIN S.kf.slots) + 2)
    IN [offs  |-> it.offs,
        items |-> [i \in 1..Len(it.offs) |->
                      LET r == S.kf.slots[it.offs[i]] IN <<r.id, S.vf.slots[r.voff].id>>],
        hints |-> it.hints, fused |-> it.fused /\ it.ended]
Iterate(S) == IterateV(S, TRUE)
=============================================================================
