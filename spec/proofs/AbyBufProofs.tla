------------------------- MODULE AbyBufProofs -------------------------
(* Inductive invariant of the buffering and durability design (AbyBuf: C02, C03, C07, C16) for    *)
(* EVERY number of chunks, cache capacity and number of updates - TLC checks the same invariants  *)
(* exhaustively for NChunks = 3..4, Cap = 2..3 only.  Proved with TLAPS:                           *)
(*     cd spec/proofs && tlapm -I .. --threads 8 AbyBufProofs.tla                                  *)
(* The module reasons about AbyBuf itself (the module TLC checks and whose flush order and dirty  *)
(* flag the trace specification compares with the crate), for the repaired code's constants       *)
(* MarkDirty = TRUE, ClearEarly = FALSE.                                                           *)
EXTENDS AbyBuf, TLAPS

ASSUME ConstAssump == /\ NChunks \in Nat /\ Cap \in Nat /\ MaxUpd \in Nat
                      /\ MarkDirty = TRUE /\ ClearEarly = FALSE

LastVals == {"none", "update", "update_err", "flush_ok", "flush_err", "drop"}
FileT == [Chunks -> Nat]
Synced == \A f \in FileSet : \A c \in Chunks : disk[f][c] = logical[f][c]

IndInv ==
    /\ logical \in [FileSet -> FileT] /\ disk \in [FileSet -> FileT]
    /\ cached \in [FileSet -> SUBSET Chunks] /\ dirtyc \in [FileSet -> SUBSET Chunks]
    /\ mdirty \in BOOLEAN /\ broken \in BOOLEAN /\ limit \in Int /\ last \in LastVals /\ nupd \in Nat
    /\ \A f \in FileSet : dirtyc[f] \subseteq cached[f]
    \* the disk differs from the logical content only in dirty cached chunks
    /\ last # "drop" => \A f \in FileSet : \A c \in Chunks : disk[f][c] # logical[f][c] => c \in dirtyc[f]
    \* a map that is not dirty has no dirty chunk
    /\ ~mdirty => \A f \in FileSet : dirtyc[f] = {}
    /\ last = "flush_ok" => Synced
    /\ last = "flush_err" => mdirty
    /\ (last = "drop" /\ limit = NChunks) => Synced
    /\ last = "drop" => broken

LEMMA FileSetFacts == FileSet = {"val", "key", "htx"} /\ "val" # "key" /\ "val" # "htx" /\ "key" # "htx"
  BY DEF FileSet

LEMMA FlushFileFacts ==
    ASSUME NEW f \in FileSet, NEW dk \in FileT, NEW dc \in SUBSET Chunks, logical \in [FileSet -> FileT], limit \in Int
    PROVE  LET r == FlushFile(f, dk, dc) IN
           /\ r[1] \in FileT /\ r[2] \in SUBSET Chunks /\ r[2] \subseteq dc /\ r[3] \in BOOLEAN
           /\ (r[3] => r[2] = {})
           /\ (limit = NChunks => r[3])
           /\ \A c \in Chunks : r[1][c] = IF c \in dc /\ c \notin r[2] THEN logical[f][c] ELSE dk[c]
  BY ConstAssump DEF FlushFile, Refused, FileT, Chunks

LEMMA TouchFacts ==
    ASSUME NEW f \in FileSet, NEW c \in Chunks, NEW dk \in FileT, NEW ca \in SUBSET Chunks, NEW dc \in SUBSET Chunks,
           logical \in [FileSet -> FileT], limit \in Int, dc \subseteq ca,
           \A x \in Chunks : dk[x] # logical[f][x] => x \in dc
    PROVE  LET t == Touch(f, c, dk, ca, dc) IN
           t.ok => /\ t.disk \in FileT /\ t.cached \in SUBSET Chunks /\ t.dirty \in SUBSET Chunks
                   /\ t.dirty \subseteq t.cached /\ c \in t.dirty
                   /\ \A x \in Chunks : t.disk[x] # logical[f][x] => x \in t.dirty
<1> DEFINE fl == FlushFile(f, dk, dc)
<1>1. /\ fl[1] \in FileT /\ fl[2] \in SUBSET Chunks /\ fl[2] \subseteq dc /\ fl[3] \in BOOLEAN
      /\ (fl[3] => fl[2] = {})
      /\ \A x \in Chunks : fl[1][x] = IF x \in dc /\ x \notin fl[2] THEN logical[f][x] ELSE dk[x]
  BY FlushFileFacts
<1>2. CASE c \in ca
  BY <1>2 DEF Touch
<1>3. CASE c \notin ca /\ Cardinality(ca) < Cap
  BY <1>3 DEF Touch
<1>4. CASE c \notin ca /\ ~(Cardinality(ca) < Cap)
  <2>1. Touch(f, c, dk, ca, dc) = IF ~fl[3] THEN [disk |-> fl[1], cached |-> ca, dirty |-> fl[2], ok |-> FALSE]
                                  ELSE [disk |-> fl[1], cached |-> (ca \cap {0}) \cup {c}, dirty |-> {c}, ok |-> TRUE]
    BY <1>4 DEF Touch
  <2>2. CASE ~fl[3]
    BY <2>1, <2>2
  <2>3. CASE fl[3]
    BY <2>1, <2>3, <1>1
  <2> QED BY <2>2, <2>3
<1> QED BY <1>2, <1>3, <1>4

THEOREM InitInv == Init => IndInv
  BY ConstAssump DEF Init, IndInv, LastVals, FileT, Synced, Chunks, FileSet

THEOREM StepInv == IndInv /\ [Next]_vars => IndInv'
<1> SUFFICES ASSUME IndInv, [Next]_vars PROVE IndInv'
  OBVIOUS
<1> USE ConstAssump
<1>1. ASSUME NEW cv \in Chunks, NEW ck \in Chunks, NEW ch \in Chunks, Update(cv, ck, ch) PROVE IndInv'
  <2> DEFINE tv == Touch("val", cv, disk["val"], cached["val"], dirtyc["val"])
             tk == Touch("key", ck, disk["key"], cached["key"], dirtyc["key"])
             th == Touch("htx", ch, disk["htx"], cached["htx"], dirtyc["htx"])
  <2>0. ~broken /\ last # "drop"
    BY <1>1 DEF Update, IndInv
  <2>1. CASE tv.ok /\ tk.ok /\ th.ok
    <3>1. /\ logical' = [f \in FileSet |-> [c \in Chunks |->
                                IF (f = "val" /\ c = cv) \/ (f = "key" /\ c = ck) \/ (f = "htx" /\ c = ch)
                                THEN logical[f][c] + 1 ELSE logical[f][c]]]
          /\ disk' = [f \in FileSet |-> CASE f = "val" -> tv.disk [] f = "key" -> tk.disk [] OTHER -> th.disk]
          /\ cached' = [f \in FileSet |-> CASE f = "val" -> tv.cached [] f = "key" -> tk.cached [] OTHER -> th.cached]
          /\ dirtyc' = [f \in FileSet |-> CASE f = "val" -> tv.dirty [] f = "key" -> tk.dirty [] OTHER -> th.dirty]
          /\ mdirty' = (mdirty \/ MarkDirty) /\ last' = "update" /\ nupd' = nupd + 1 /\ UNCHANGED <<limit, broken>>
      BY <1>1, <2>1 DEF Update
    <3>2. /\ tv.disk \in FileT /\ tv.cached \in SUBSET Chunks /\ tv.dirty \in SUBSET Chunks
          /\ tv.dirty \subseteq tv.cached /\ cv \in tv.dirty
          /\ \A x \in Chunks : tv.disk[x] # logical["val"][x] => x \in tv.dirty
      BY <2>0, <2>1, TouchFacts, FileSetFacts DEF IndInv
    <3>3. /\ tk.disk \in FileT /\ tk.cached \in SUBSET Chunks /\ tk.dirty \in SUBSET Chunks
          /\ tk.dirty \subseteq tk.cached /\ ck \in tk.dirty
          /\ \A x \in Chunks : tk.disk[x] # logical["key"][x] => x \in tk.dirty
      BY <2>0, <2>1, TouchFacts, FileSetFacts DEF IndInv
    <3>4. /\ th.disk \in FileT /\ th.cached \in SUBSET Chunks /\ th.dirty \in SUBSET Chunks
          /\ th.dirty \subseteq th.cached /\ ch \in th.dirty
          /\ \A x \in Chunks : th.disk[x] # logical["htx"][x] => x \in th.dirty
      BY <2>0, <2>1, TouchFacts, FileSetFacts DEF IndInv
    <3>5. /\ disk'["val"] = tv.disk /\ disk'["key"] = tk.disk /\ disk'["htx"] = th.disk
          /\ cached'["val"] = tv.cached /\ cached'["key"] = tk.cached /\ cached'["htx"] = th.cached
          /\ dirtyc'["val"] = tv.dirty /\ dirtyc'["key"] = tk.dirty /\ dirtyc'["htx"] = th.dirty
      BY <3>1, FileSetFacts
    <3>6. /\ logical' \in [FileSet -> FileT]
          /\ \A x \in Chunks : logical'["val"][x] = IF x = cv THEN logical["val"][x] + 1 ELSE logical["val"][x]
          /\ \A x \in Chunks : logical'["key"][x] = IF x = ck THEN logical["key"][x] + 1 ELSE logical["key"][x]
          /\ \A x \in Chunks : logical'["htx"][x] = IF x = ch THEN logical["htx"][x] + 1 ELSE logical["htx"][x]
      BY <3>1, FileSetFacts DEF IndInv, FileT
    <3>7. /\ disk' \in [FileSet -> FileT] /\ cached' \in [FileSet -> SUBSET Chunks] /\ dirtyc' \in [FileSet -> SUBSET Chunks]
      BY <3>1, <3>2, <3>3, <3>4, FileSetFacts
    <3>8. \A f \in FileSet : dirtyc'[f] \subseteq cached'[f]
      BY <3>5, <3>2, <3>3, <3>4, FileSetFacts
    <3>9. \A f \in FileSet : \A c \in Chunks : disk'[f][c] # logical'[f][c] => c \in dirtyc'[f]
      BY <3>5, <3>6, <3>2, <3>3, <3>4, FileSetFacts
    <3>10. mdirty' = TRUE /\ last' = "update" /\ nupd' \in Nat /\ broken' = broken /\ limit' = limit
      BY <3>1 DEF IndInv
    <3> QED
      BY <3>6, <3>7, <3>8, <3>9, <3>10 DEF IndInv, LastVals
  <2>2. CASE ~(tv.ok /\ tk.ok /\ th.ok)
    <3>1. broken' = TRUE /\ last' = "update_err" /\ UNCHANGED <<logical, disk, cached, dirtyc, mdirty, limit, nupd>>
      BY <1>1, <2>2 DEF Update
    <3> QED
      BY <3>1, <2>0 DEF IndInv, LastVals, Synced
  <2> QED BY <2>1, <2>2
<1>2. ASSUME Flush PROVE IndInv'
  <2>0. ~broken /\ last # "drop"
    BY <1>2 DEF Flush, IndInv
  <2>1. CASE ~mdirty
    <3>1. last' = "flush_ok" /\ UNCHANGED <<logical, disk, cached, dirtyc, mdirty, limit, nupd, broken>>
      BY <1>2, <2>1 DEF Flush
    <3>2. Synced
      BY <2>0, <2>1 DEF IndInv, Synced
    <3> QED
      BY <3>1, <3>2, <2>0, <2>1 DEF IndInv, LastVals, Synced
  <2>2. CASE mdirty
    <3> DEFINE fv == FlushFile("val", disk["val"], dirtyc["val"])
               fk == IF fv[3] THEN FlushFile("key", disk["key"], dirtyc["key"]) ELSE <<disk["key"], dirtyc["key"], FALSE>>
               fh == IF fk[3] THEN FlushFile("htx", disk["htx"], dirtyc["htx"]) ELSE <<disk["htx"], dirtyc["htx"], FALSE>>
               ok == fv[3] /\ fk[3] /\ fh[3]
    <3>1. /\ disk' = [f \in FileSet |-> CASE f = "val" -> fv[1] [] f = "key" -> fk[1] [] OTHER -> fh[1]]
          /\ dirtyc' = [f \in FileSet |-> CASE f = "val" -> fv[2] [] f = "key" -> fk[2] [] OTHER -> fh[2]]
          /\ mdirty' = (IF ClearEarly THEN FALSE ELSE ~ok)
          /\ last' = (IF ok THEN "flush_ok" ELSE "flush_err")
          /\ UNCHANGED <<logical, cached, limit, nupd, broken>>
      BY <1>2, <2>2 DEF Flush
    <3>2. /\ fv[1] \in FileT /\ fv[2] \in SUBSET Chunks /\ fv[2] \subseteq dirtyc["val"] /\ fv[3] \in BOOLEAN /\ (fv[3] => fv[2] = {})
          /\ \A c \in Chunks : fv[1][c] = IF c \in dirtyc["val"] /\ c \notin fv[2] THEN logical["val"][c] ELSE disk["val"][c]
      BY FlushFileFacts, FileSetFacts DEF IndInv
    <3>3. /\ fk[1] \in FileT /\ fk[2] \in SUBSET Chunks /\ fk[2] \subseteq dirtyc["key"] /\ fk[3] \in BOOLEAN /\ (fk[3] => fk[2] = {})
          /\ \A c \in Chunks : fk[1][c] = IF c \in dirtyc["key"] /\ c \notin fk[2] THEN logical["key"][c] ELSE disk["key"][c]
      <4>1. CASE fv[3]
        BY <4>1, FlushFileFacts, FileSetFacts DEF IndInv
      <4>2. CASE ~fv[3]
        BY <4>2, FileSetFacts DEF IndInv
      <4> QED BY <4>1, <4>2
    <3>4. /\ fh[1] \in FileT /\ fh[2] \in SUBSET Chunks /\ fh[2] \subseteq dirtyc["htx"] /\ fh[3] \in BOOLEAN /\ (fh[3] => fh[2] = {})
          /\ \A c \in Chunks : fh[1][c] = IF c \in dirtyc["htx"] /\ c \notin fh[2] THEN logical["htx"][c] ELSE disk["htx"][c]
      <4>1. CASE fk[3]
        BY <4>1, FlushFileFacts, FileSetFacts DEF IndInv
      <4>2. CASE ~fk[3]
        BY <4>2, FileSetFacts DEF IndInv
      <4> QED BY <4>1, <4>2, <3>3
    <3>5. /\ disk'["val"] = fv[1] /\ disk'["key"] = fk[1] /\ disk'["htx"] = fh[1]
          /\ dirtyc'["val"] = fv[2] /\ dirtyc'["key"] = fk[2] /\ dirtyc'["htx"] = fh[2]
      BY <3>1, FileSetFacts
    <3>6. disk' \in [FileSet -> FileT] /\ dirtyc' \in [FileSet -> SUBSET Chunks]
      BY <3>1, <3>2, <3>3, <3>4, FileSetFacts
    <3>7. \A f \in FileSet : dirtyc'[f] \subseteq cached'[f]
      BY <3>1, <3>5, <3>2, <3>3, <3>4, FileSetFacts DEF IndInv
    <3>8. \A f \in FileSet : \A c \in Chunks : disk'[f][c] # logical'[f][c] => c \in dirtyc'[f]
      BY <3>1, <3>5, <3>2, <3>3, <3>4, <2>0, FileSetFacts DEF IndInv
    <3>9. ok => (\A f \in FileSet : dirtyc'[f] = {})
      BY <3>5, <3>2, <3>3, <3>4, FileSetFacts
    <3>10. ok => Synced'
      BY <3>8, <3>9, <3>1 DEF Synced
    <3>11. mdirty' = ~ok /\ ok \in BOOLEAN
      BY <3>1, <3>2, <3>3, <3>4
    <3> QED
      BY <3>1, <3>6, <3>7, <3>8, <3>9, <3>10, <3>11, <2>0 DEF IndInv, LastVals
  <2> QED BY <2>1, <2>2 DEF IndInv
<1>3. ASSUME Drop PROVE IndInv'
  <2>0. ~broken /\ last # "drop"
    BY <1>3 DEF Drop
  <2> DEFINE fl(f) == FlushFile(f, disk[f], dirtyc[f])
  <2>1. /\ disk' = [f \in FileSet |-> fl(f)[1]]
        /\ dirtyc' = [f \in FileSet |-> {}] /\ cached' = [f \in FileSet |-> {}]
        /\ last' = "drop" /\ broken' = TRUE /\ UNCHANGED <<logical, mdirty, limit, nupd>>
    BY <1>3 DEF Drop
  <2>2. \A f \in FileSet : /\ fl(f)[1] \in FileT /\ (limit = NChunks => fl(f)[2] = {})
                           /\ \A c \in Chunks : fl(f)[1][c] = IF c \in dirtyc[f] /\ c \notin fl(f)[2] THEN logical[f][c] ELSE disk[f][c]
    BY FlushFileFacts DEF IndInv
  <2>3. limit = NChunks => Synced'
    BY <2>1, <2>2, <2>0 DEF IndInv, Synced
  <2> QED
    BY <2>1, <2>2, <2>3 DEF IndInv, LastVals
<1>4. ASSUME LiftFault PROVE IndInv'
  BY <1>4 DEF LiftFault, IndInv, LastVals, Synced
<1>5. ASSUME NEW t \in Chunks, SetFault(t) PROVE IndInv'
  BY <1>5 DEF SetFault, IndInv, LastVals, Synced, Chunks
<1>6. ASSUME UNCHANGED vars PROVE IndInv'
  BY <1>6 DEF vars, IndInv, Synced
<1> QED
  BY <1>1, <1>2, <1>3, <1>4, <1>5, <1>6 DEF Next

THEOREM Safety == Spec => []IndInv
  BY InitInv, StepInv, PTL DEF Spec

(* the invariants TLC checks follow from the inductive one *)
THEOREM IndInvImplies ==
    IndInv => /\ ReadYourWrites /\ Covered /\ FlushErrKeeps
              /\ (last = "flush_ok" => Synced) /\ ((last = "drop" /\ limit = NChunks) => Synced)
  BY DEF IndInv, ReadYourWrites, Covered, FlushErrKeeps
=============================================================================
