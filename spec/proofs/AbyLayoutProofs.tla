------------------------ MODULE AbyLayoutProofs ------------------------
(* Unbounded counterpart of MCLayout's exhaustive sweep (C09).  MCLayout evaluates the slot       *)
(* arithmetic for every value length up to 16 MiB and every key length up to 64 KiB; the          *)
(* theorems below state the same facts for EVERY length and offset in the range where EncLen      *)
(* is defined (below 2^31, TLC's integer range), and are proved by TLAPS (SMT back end):          *)
(*     cd spec/proofs && tlapm --threads 8 AbyLayoutProofs.tla                                     *)
(* The arithmetic is AbyLayoutArith itself (the module the trace specification and the model      *)
(* checking modules use), not a copy.                                                             *)
EXTENDS AbyLayoutArith, TLAPS

Lim == 2147483000            \* lengths and offsets below this keep every intermediate below 2^31

LEMMA EncLenRange == \A v \in Nat : EncLen(v) \in 1..5
  BY SMTT(120) DEF EncLen

LEMMA EncLenMono == \A a, b \in Nat : a <= b => EncLen(a) <= EncLen(b)
  BY SMTT(120) DEF EncLen

LEMMA RoundupGE == \A x \in Nat : Roundup(x) >= x /\ Roundup(x) >= 16 /\ Roundup(x) % 8 = 0
  BY SMTT(120) DEF Roundup

LEMMA RoundupMono == \A a, b \in Nat : a <= b => Roundup(a) <= Roundup(b)
  BY SMTT(120) DEF Roundup

LEMMA RoundupSmallOrLarge ==
    \A x \in Nat : \/ Roundup(x) \in {16, 24, 32, 48, 64, 80, 96, 112, 128, 256, 384, 512, 640, 768, 896}
                   \/ (Roundup(x) >= 1024 /\ Roundup(x) % 128 = 0)
  BY SMTT(120) DEF Roundup

(* a value record fits the slot a fresh record gets, for every value length *)
THEOREM ValRecordFits ==
    \A l \in Nat : l < Lim => ValActual(l, ValSlot(l)) <= ValSlot(l)
  BY SMTT(120) DEF ValActual, ValSlot, ValEnc, ValNeed, Roundup, EncLen, Lim

THEOREM ValSlotShape ==
    \A l \in Nat : l < Lim => ValSlot(l) % 8 = 0 /\ ValSlot(l) >= 16 /\ ValSlot(l) > l
  BY SMTT(120) DEF ValSlot, ValEnc, ValNeed, Roundup, EncLen, Lim

THEOREM ValSlotMono ==
    \A a, b \in Nat : a <= b /\ b < Lim => ValSlot(a) <= ValSlot(b)
  BY SMTT(120) DEF ValSlot, ValEnc, ValNeed, Roundup, EncLen, Lim

(* a key record fits its slot for every key length and every pair of offsets: the estimate uses *)
(* the width of the raw offsets, the writer stores offset/8, which is never wider               *)
THEOREM KeyRecordFits ==
    \A k, vo, nx \in Nat : k < Lim /\ vo < Lim /\ nx < Lim =>
        KeyActual(k, vo, nx, KeySlot(k, vo, nx)) <= KeySlot(k, vo, nx)
  BY SMTT(120) DEF KeyActual, KeySlot, KeyEnc, KeyNeed, Roundup, EncLen, Lim

THEOREM KeySlotShape ==
    \A k, vo, nx \in Nat : k < Lim /\ vo < Lim /\ nx < Lim =>
        KeySlot(k, vo, nx) % 8 = 0 /\ KeySlot(k, vo, nx) >= 16 /\ FreeActual(KeySlot(k, vo, nx)) <= KeySlot(k, vo, nx)
<1> SUFFICES ASSUME NEW k \in Nat, NEW vo \in Nat, NEW nx \in Nat, k < Lim, vo < Lim, nx < Lim
             PROVE  KeySlot(k, vo, nx) % 8 = 0 /\ KeySlot(k, vo, nx) >= 16 /\ FreeActual(KeySlot(k, vo, nx)) <= KeySlot(k, vo, nx)
  OBVIOUS
<1> DEFINE y == KeyEnc(k, vo, nx) + KeyNeed(k, vo, nx)
<1>1. y \in Nat
  BY SMTT(60) DEF KeyEnc, KeyNeed, EncLen, Lim
<1>2. KeySlot(k, vo, nx) = Roundup(y)
  BY DEF KeySlot
<1>3. Roundup(y) \in Nat /\ Roundup(y) >= 16 /\ Roundup(y) % 8 = 0
  BY <1>1, SMTT(60) DEF Roundup
<1>4. FreeActual(Roundup(y)) <= Roundup(y)
  BY <1>3, SMTT(60) DEF FreeActual, EncLen
<1> QED
  BY <1>2, <1>3, <1>4

(* any slot (>= 16 bytes, multiple of 8) can hold the free-slot image: size field, 0x00, u64 link *)
THEOREM FreeImageFits ==
    \A s \in Nat : s >= 16 => FreeActual(s) <= s
  BY SMTT(120) DEF FreeActual, EncLen

(* the rounding of large records always leaves at least one spare byte: this is what keeps the   *)
(* estimate of the size field (made from the unrounded length) safe                              *)
THEOREM LargeRoundupStrict ==
    \A x \in Nat : x > 896 => Roundup(x) > x /\ Roundup(x) - x <= 128
  BY SMTT(120) DEF Roundup
=============================================================================
