------------------------- MODULE AbyRegProofs -------------------------
(* Why handles alias (C11), for EVERY number of names, key types, handles and instances: the        *)
(* lookup discipline of AbyReg (every getter consults the registry of its key type; an existing     *)
(* file must carry the signature of the requested type; the signatures of the key types are         *)
(* distinct) keeps ONE buffered instance per map name.  TLC checks the same for 2 names x 3 types   *)
(* x 3 handles (MCReg_q) and shows that the invariant breaks without either premise (MCReg_d8,      *)
(* MCReg_nolookup).  Proved with TLAPS:  cd spec/proofs && tlapm -I .. --threads 8 AbyRegProofs.tla  *)
EXTENDS AbyReg, TLAPS

ASSUME Premises == /\ AlwaysLookup = TRUE
                   /\ \A t1, t2 \in Types : SigOf[t1] = SigOf[t2] => t1 = t2      \* distinct signatures

IndInv ==
    /\ nid \in Nat /\ DOMAIN reg = Types
    /\ \A i \in DOMAIN inst : i \in Nat /\ i < nid /\ inst[i].kt \in Types
    /\ \A h \in DOMAIN hnd : hnd[h] \in DOMAIN inst
    \* every instance is registered under its key type and name, and the registries hold nothing else
    /\ \A i \in DOMAIN inst : inst[i].name \in DOMAIN reg[inst[i].kt] /\ reg[inst[i].kt][inst[i].name] = i
    /\ \A t \in Types : \A nm \in DOMAIN reg[t] : reg[t][nm] \in DOMAIN inst /\ inst[reg[t][nm]].name = nm /\ inst[reg[t][nm]].kt = t
    \* an instance exists only over files that were created for its key type
    /\ \A i \in DOMAIN inst : inst[i].name \in DOMAIN disk /\ disk[inst[i].name].kt = inst[i].kt
                              /\ disk[inst[i].name].sig = SigOf[inst[i].kt]
    /\ \A nm \in DOMAIN disk : disk[nm].kt \in Types /\ disk[nm].sig = SigOf[disk[nm].kt]
    \* one buffered instance per name
    /\ \A i, j \in DOMAIN inst : inst[i].name = inst[j].name => i = j

LEMMA InitInv == Init => IndInv
  BY DEF Init, IndInv

LEMMA OpenFilesInv ==
    ASSUME IndInv, NEW h \in Handles, NEW t \in Types, NEW nm \in Names,
           h \notin DOMAIN hnd, nm \notin DOMAIN reg[t], OpenFiles(h, t, nm)
    PROVE  IndInv'
<1> USE Premises
<1>0. \A j \in DOMAIN inst : inst[j].name # nm \/ (nm \in DOMAIN disk /\ disk[nm].sig # SigOf[t])
  <2> SUFFICES ASSUME NEW j \in DOMAIN inst, inst[j].name = nm
               PROVE  nm \in DOMAIN disk /\ disk[nm].sig # SigOf[t]
    OBVIOUS
  <2>1. nm \in DOMAIN disk /\ disk[nm].sig = SigOf[inst[j].kt] /\ inst[j].kt \in Types
    BY DEF IndInv
  <2>2. inst[j].kt # t
    BY DEF IndInv
  <2> QED BY <2>1, <2>2
<1>1. CASE nm \in DOMAIN disk /\ disk[nm].sig = SigOf[t]
  <2>1. /\ inst' = [x \in (DOMAIN inst) \cup {nid} |-> IF x = nid THEN [name |-> nm, kt |-> t, content |-> disk[nm].content, dirty |-> FALSE] ELSE inst[x]]
        /\ reg' = [reg EXCEPT ![t] = [x \in (DOMAIN reg[t]) \cup {nm} |-> IF x = nm THEN nid ELSE reg[t][x]]]
        /\ hnd' = [x \in (DOMAIN hnd) \cup {h} |-> IF x = h THEN nid ELSE hnd[x]] /\ nid' = nid + 1 /\ disk' = disk
    BY <1>1 DEF OpenFiles, NewId, Ext
  <2>2. \A j \in DOMAIN inst : inst[j].name # nm
    BY <1>0, <1>1
  <2>3. nid \notin DOMAIN inst
    BY DEF IndInv
  <2>4. disk[nm].kt = t
    BY <1>1 DEF IndInv
  <2>5. DOMAIN inst' = (DOMAIN inst) \cup {nid} /\ DOMAIN hnd' = (DOMAIN hnd) \cup {h} /\ DOMAIN reg' = Types
        /\ (\A x \in DOMAIN inst : inst'[x] = inst[x])
        /\ inst'[nid].name = nm /\ inst'[nid].kt = t
        /\ (\A x \in DOMAIN hnd : x # h => hnd'[x] = hnd[x]) /\ hnd'[h] = nid
        /\ (\A tt \in Types : tt # t => reg'[tt] = reg[tt])
        /\ DOMAIN reg'[t] = (DOMAIN reg[t]) \cup {nm} /\ reg'[t][nm] = nid
        /\ (\A x \in DOMAIN reg[t] : x # nm => reg'[t][x] = reg[t][x])
    BY <2>1, <2>3 DEF IndInv
  <2>a. nid' \in Nat /\ DOMAIN reg' = Types
    BY <2>1, <2>5 DEF IndInv
  <2>b. \A i \in DOMAIN inst' : i \in Nat /\ i < nid' /\ inst'[i].kt \in Types
    BY <2>1, <2>5 DEF IndInv
  <2>c. \A hh \in DOMAIN hnd' : hnd'[hh] \in DOMAIN inst'
    BY <2>5 DEF IndInv
  <2>d. \A i \in DOMAIN inst' : inst'[i].name \in DOMAIN reg'[inst'[i].kt] /\ reg'[inst'[i].kt][inst'[i].name] = i
    BY <2>5, <2>2 DEF IndInv
  <2>e. \A tt \in Types : \A x \in DOMAIN reg'[tt] : reg'[tt][x] \in DOMAIN inst' /\ inst'[reg'[tt][x]].name = x /\ inst'[reg'[tt][x]].kt = tt
    BY <2>5, <2>3 DEF IndInv
  <2>f. \A i \in DOMAIN inst' : inst'[i].name \in DOMAIN disk' /\ disk'[inst'[i].name].kt = inst'[i].kt
                                  /\ disk'[inst'[i].name].sig = SigOf[inst'[i].kt]
    BY <2>1, <2>5, <2>4, <1>1 DEF IndInv
  <2>g. \A x \in DOMAIN disk' : disk'[x].kt \in Types /\ disk'[x].sig = SigOf[disk'[x].kt]
    BY <2>1 DEF IndInv
  <2>h. \A i, j \in DOMAIN inst' : inst'[i].name = inst'[j].name => i = j
    BY <2>5, <2>2 DEF IndInv
  <2> QED
    BY <2>a, <2>b, <2>c, <2>d, <2>e, <2>f, <2>g, <2>h DEF IndInv
<1>2. CASE nm \in DOMAIN disk /\ disk[nm].sig # SigOf[t]
  BY <1>2 DEF OpenFiles, IndInv
<1>3. CASE nm \notin DOMAIN disk
  <2>1. /\ disk' = [x \in (DOMAIN disk) \cup {nm} |-> IF x = nm THEN [sig |-> SigOf[t], kt |-> t, content |-> <<>>] ELSE disk[x]]
        /\ inst' = [x \in (DOMAIN inst) \cup {nid} |-> IF x = nid THEN [name |-> nm, kt |-> t, content |-> <<>>, dirty |-> FALSE] ELSE inst[x]]
        /\ reg' = [reg EXCEPT ![t] = [x \in (DOMAIN reg[t]) \cup {nm} |-> IF x = nm THEN nid ELSE reg[t][x]]]
        /\ hnd' = [x \in (DOMAIN hnd) \cup {h} |-> IF x = h THEN nid ELSE hnd[x]] /\ nid' = nid + 1
    BY <1>3 DEF OpenFiles, NewId, Ext
  <2>2. \A j \in DOMAIN inst : inst[j].name # nm
    BY <1>3 DEF IndInv
  <2>3. nid \notin DOMAIN inst
    BY DEF IndInv
  <2> QED
    BY <2>1, <2>2, <2>3 DEF IndInv
<1> QED BY <1>1, <1>2, <1>3

THEOREM StepInv == IndInv /\ [Next]_vars => IndInv'
<1> SUFFICES ASSUME IndInv, [Next]_vars PROVE IndInv'
  OBVIOUS
<1> USE Premises
<1>1. ASSUME NEW h \in Handles, NEW t \in Types, NEW nm \in Names, NEW wp \in BOOLEAN, GetMap(h, t, nm, wp) PROVE IndInv'
  <2>1. CASE nm \in DOMAIN reg[t]
    <3>1. hnd' = [x \in (DOMAIN hnd) \cup {h} |-> IF x = h THEN reg[t][nm] ELSE hnd[x]] /\ UNCHANGED <<disk, inst, reg, nid>>
      BY <1>1, <2>1 DEF GetMap, Ext
    <3> QED BY <3>1, <2>1 DEF IndInv
  <2>2. CASE nm \notin DOMAIN reg[t]
    <3>1. h \notin DOMAIN hnd /\ OpenFiles(h, t, nm)
      BY <1>1, <2>2 DEF GetMap
    <3> QED BY <3>1, <2>2, OpenFilesInv
  <2> QED BY <2>1, <2>2
<1>2. ASSUME NEW h \in Handles, NEW g \in Handles, CloneHandle(h, g) PROVE IndInv'
  BY <1>2 DEF CloneHandle, IndInv, Ext
<1>3. ASSUME NEW h \in Handles, NEW k \in Keys, NEW v \in Vals, Put(h, k, v) PROVE IndInv'
  BY <1>3 DEF Put, IndInv, Ext
<1>4. ASSUME NEW h \in Handles, NEW k \in Keys, Del(h, k) PROVE IndInv'
  BY <1>4 DEF Del, IndInv
<1>5. ASSUME NEW h \in Handles, Flush(h) PROVE IndInv'
  BY <1>5 DEF Flush, IndInv
<1>6. ASSUME SyncDb PROVE IndInv'
  BY <1>6 DEF SyncDb, IndInv
<1>7. ASSUME UNCHANGED vars PROVE IndInv'
  BY <1>7 DEF vars, IndInv
<1>8. ASSUME DropAll PROVE IndInv'
  <2>1. PICK pick \in [DOMAIN disk -> (DOMAIN inst) \cup {0}] :
          disk' = [nm \in DOMAIN disk |-> IF pick[nm] = 0 THEN disk[nm]
                                            ELSE [sig |-> disk[nm].sig, kt |-> disk[nm].kt, content |-> inst[pick[nm]].content]]
    BY <1>8 DEF DropAll
  <2>2. inst' = <<>> /\ reg' = [t \in Types |-> <<>>] /\ hnd' = <<>> /\ nid' = nid
    BY <1>8 DEF DropAll
  <2>3. DOMAIN inst' = {} /\ DOMAIN hnd' = {} /\ DOMAIN reg' = Types /\ \A t \in Types : DOMAIN reg'[t] = {}
    BY <2>2
  <2>4. DOMAIN disk' = DOMAIN disk /\ \A nm \in DOMAIN disk : disk'[nm].kt = disk[nm].kt /\ disk'[nm].sig = disk[nm].sig
    BY <2>1
  <2> QED
    BY <2>2, <2>3, <2>4 DEF IndInv
<1> QED
  BY <1>1, <1>2, <1>3, <1>4, <1>5, <1>6, <1>7, <1>8 DEF Next

THEOREM Safety == Spec => []IndInv
  BY InitInv, StepInv, PTL DEF Spec

(* C02: with one instance per name, what every handle observed at the end of a session is what the files hold afterwards *)
Extra ==
    /\ nid >= 1
    /\ \A i \in DOMAIN inst : i >= 1
    \* a clean instance holds what its files hold
    /\ \A i \in DOMAIN inst : ~inst[i].dirty => disk[inst[i].name].content = inst[i].content

LEMMA ExtraInit == Init => Extra
  BY DEF Init, Extra

LEMMA ExtraOpenFiles ==
    ASSUME IndInv, Extra, NEW h \in Handles, NEW t \in Types, NEW nm \in Names,
           h \notin DOMAIN hnd, nm \notin DOMAIN reg[t], OpenFiles(h, t, nm)
    PROVE  Extra'
<1> USE Premises
<1>0. nid \notin DOMAIN inst /\ nid \in Nat
  BY DEF IndInv
<1>1. CASE nm \in DOMAIN disk /\ disk[nm].sig = SigOf[t]
  <2>1. /\ inst' = [x \in (DOMAIN inst) \cup {nid} |-> IF x = nid THEN [name |-> nm, kt |-> t, content |-> disk[nm].content, dirty |-> FALSE] ELSE inst[x]]
        /\ nid' = nid + 1 /\ disk' = disk
    BY <1>1 DEF OpenFiles, NewId, Ext
  <2> QED BY <2>1, <1>0 DEF Extra
<1>2. CASE nm \in DOMAIN disk /\ disk[nm].sig # SigOf[t]
  BY <1>2 DEF OpenFiles, Extra
<1>3. CASE nm \notin DOMAIN disk
  <2>1. /\ disk' = [x \in (DOMAIN disk) \cup {nm} |-> IF x = nm THEN [sig |-> SigOf[t], kt |-> t, content |-> <<>>] ELSE disk[x]]
        /\ inst' = [x \in (DOMAIN inst) \cup {nid} |-> IF x = nid THEN [name |-> nm, kt |-> t, content |-> <<>>, dirty |-> FALSE] ELSE inst[x]]
        /\ nid' = nid + 1
    BY <1>3 DEF OpenFiles, NewId, Ext
  <2>2. \A j \in DOMAIN inst : inst[j].name # nm /\ inst[j].name \in DOMAIN disk
    BY <1>3 DEF IndInv
  <2> QED BY <2>1, <2>2, <1>0 DEF Extra
<1> QED BY <1>1, <1>2, <1>3

THEOREM ExtraStep == IndInv /\ Extra /\ [Next]_vars => Extra'
<1> SUFFICES ASSUME IndInv, Extra, [Next]_vars PROVE Extra'
  OBVIOUS
<1> USE Premises
<1>1. ASSUME NEW h \in Handles, NEW t \in Types, NEW nm \in Names, NEW wp \in BOOLEAN, GetMap(h, t, nm, wp) PROVE Extra'
  <2>1. CASE nm \in DOMAIN reg[t]
    <3>1. UNCHANGED <<disk, inst, reg, nid>>
      BY <1>1, <2>1 DEF GetMap
    <3> QED BY <3>1 DEF Extra
  <2>2. CASE nm \notin DOMAIN reg[t]
    <3>1. h \notin DOMAIN hnd /\ OpenFiles(h, t, nm)
      BY <1>1, <2>2 DEF GetMap
    <3> QED BY <3>1, <2>2, ExtraOpenFiles
  <2> QED BY <2>1, <2>2
<1>2. ASSUME NEW h \in Handles, NEW g \in Handles, CloneHandle(h, g) PROVE Extra'
  BY <1>2 DEF CloneHandle, Extra
<1>3. ASSUME NEW h \in Handles, NEW k \in Keys, NEW v \in Vals, Put(h, k, v) PROVE Extra'
  <2>1. /\ DOMAIN inst' = DOMAIN inst /\ disk' = disk /\ nid' = nid
        /\ \A i \in DOMAIN inst : inst'[i].name = inst[i].name /\ (inst'[i].dirty \/ inst'[i] = inst[i])
    BY <1>3 DEF Put
  <2> QED BY <2>1 DEF Extra
<1>4. ASSUME NEW h \in Handles, NEW k \in Keys, Del(h, k) PROVE Extra'
  <2>1. /\ DOMAIN inst' = DOMAIN inst /\ disk' = disk /\ nid' = nid
        /\ \A i \in DOMAIN inst : inst'[i].name = inst[i].name /\ (inst'[i].dirty \/ inst'[i] = inst[i])
    BY <1>4 DEF Del
  <2> QED BY <2>1 DEF Extra
<1>5. ASSUME NEW h \in Handles, Flush(h) PROVE Extra'
  <2> DEFINE i0 == hnd[h]
  <2>0. h \in DOMAIN hnd /\ i0 \in DOMAIN inst /\ inst[i0].name \in DOMAIN disk
    BY <1>5 DEF Flush, IndInv
  <2>1. /\ disk' = [nm \in DOMAIN disk |-> IF inst[i0].dirty /\ nm = inst[i0].name
                                           THEN [sig |-> disk[nm].sig, kt |-> disk[nm].kt, content |-> inst[i0].content]
                                           ELSE disk[nm]]
        /\ inst' = [j \in DOMAIN inst |-> IF j = i0 THEN [name |-> inst[j].name, kt |-> inst[j].kt, content |-> inst[j].content, dirty |-> FALSE]
                                                  ELSE inst[j]]
        /\ nid' = nid
    BY <1>5 DEF Flush
  <2>2. \A j \in DOMAIN inst : inst[j].name \in DOMAIN disk /\ (inst[j].name = inst[i0].name => j = i0)
    BY <2>0 DEF IndInv
  <2>3. \A j \in DOMAIN inst' : ~inst'[j].dirty => disk'[inst'[j].name].content = inst'[j].content
    <3> SUFFICES ASSUME NEW j \in DOMAIN inst, ~inst'[j].dirty PROVE disk'[inst'[j].name].content = inst'[j].content
      BY <2>1
    <3>1. CASE j = i0
      BY <3>1, <2>0, <2>1, <2>2 DEF Extra
    <3>2. CASE j # i0
      BY <3>2, <2>0, <2>1, <2>2 DEF Extra
    <3> QED BY <3>1, <3>2
  <2> QED BY <2>1, <2>3 DEF Extra
<1>6. ASSUME SyncDb PROVE Extra'
  <2> DEFINE regd == {i \in DOMAIN inst : \E t \in Types : \E nm \in DOMAIN reg[t] : reg[t][nm] = i}
  <2>1. /\ disk' = [nm \in DOMAIN disk |->
                        IF \E i \in regd : inst[i].name = nm /\ inst[i].dirty
                        THEN [sig |-> disk[nm].sig, kt |-> disk[nm].kt,
                              content |-> inst[CHOOSE i \in regd : inst[i].name = nm /\ inst[i].dirty].content]
                        ELSE disk[nm]]
        /\ inst' = [i \in DOMAIN inst |-> IF i \in regd THEN [name |-> inst[i].name, kt |-> inst[i].kt, content |-> inst[i].content, dirty |-> FALSE]
                                                           ELSE inst[i]]
        /\ nid' = nid
    BY <1>6 DEF SyncDb
  <2>2. regd = DOMAIN inst
    BY DEF IndInv
  <2>3. \A j \in DOMAIN inst : inst[j].name \in DOMAIN disk /\ \A jj \in DOMAIN inst : inst[jj].name = inst[j].name => jj = j
    BY DEF IndInv
  <2>4. \A j \in DOMAIN inst' : ~inst'[j].dirty => disk'[inst'[j].name].content = inst'[j].content
    <3> SUFFICES ASSUME NEW j \in DOMAIN inst PROVE disk'[inst[j].name].content = inst[j].content
      BY <2>1, <2>2
    <3>1. CASE inst[j].dirty
      <4>1. \E i \in regd : inst[i].name = inst[j].name /\ inst[i].dirty
        BY <3>1, <2>2
      <4>2. (CHOOSE i \in regd : inst[i].name = inst[j].name /\ inst[i].dirty) = j
        BY <4>1, <2>2, <2>3
      <4> QED BY <4>1, <4>2, <2>1, <2>3
    <3>2. CASE ~inst[j].dirty
      <4>1. ~ \E i \in regd : inst[i].name = inst[j].name /\ inst[i].dirty
        BY <3>2, <2>2, <2>3
      <4> QED BY <4>1, <3>2, <2>1, <2>3 DEF Extra
    <3> QED BY <3>1, <3>2
  <2> QED BY <2>1, <2>4 DEF Extra
<1>7. ASSUME UNCHANGED vars PROVE Extra'
  BY <1>7 DEF vars, Extra
<1>8. ASSUME DropAll PROVE Extra'
  <2>1. inst' = <<>> /\ nid' = nid
    BY <1>8 DEF DropAll
  <2>2. DOMAIN inst' = {}
    BY <2>1
  <2> QED BY <2>1, <2>2 DEF Extra
<1> QED
  BY <1>1, <1>2, <1>3, <1>4, <1>5, <1>6, <1>7, <1>8 DEF Next

THEOREM Safety2 == Spec => [](IndInv /\ Extra)
  BY InitInv, StepInv, ExtraInit, ExtraStep, PTL DEF Spec

THEOREM CloseDurableThm == IndInv /\ Extra /\ DropAll => CloseDurableStep
<1> SUFFICES ASSUME IndInv, Extra, DropAll, NEW h \in DOMAIN hnd
             PROVE  disk'[inst[hnd[h]].name].content = inst[hnd[h]].content
  BY DEF CloseDurableStep, View
<1> DEFINE i == hnd[h]
           nm == inst[i].name
<1>1. i \in DOMAIN inst /\ nm \in DOMAIN disk
  BY DEF IndInv
<1>2. PICK pick \in [DOMAIN disk -> (DOMAIN inst) \cup {0}] :
          /\ \A x \in DOMAIN disk :
                IF \E j \in DOMAIN inst : inst[j].name = x /\ inst[j].dirty
                THEN pick[x] \in DOMAIN inst /\ inst[pick[x]].name = x /\ inst[pick[x]].dirty
                ELSE pick[x] = 0
          /\ disk' = [x \in DOMAIN disk |-> IF pick[x] = 0 THEN disk[x]
                                            ELSE [sig |-> disk[x].sig, kt |-> disk[x].kt, content |-> inst[pick[x]].content]]
  BY DEF DropAll
<1>3. CASE inst[i].dirty
  <2>1. pick[nm] \in DOMAIN inst /\ inst[pick[nm]].name = nm
    BY <1>1, <1>2, <1>3
  <2>2. pick[nm] = i
    BY <2>1, <1>1 DEF IndInv
  <2>3. 0 \notin DOMAIN inst
    BY DEF Extra
  <2> QED BY <1>1, <1>2, <2>2, <2>3
<1>4. CASE ~inst[i].dirty
  <2>1. ~ \E j \in DOMAIN inst : inst[j].name = nm /\ inst[j].dirty
    BY <1>1, <1>4 DEF IndInv
  <2>2. pick[nm] = 0
    BY <1>1, <1>2, <2>1
  <2>3. disk[nm].content = inst[i].content
    BY <1>1, <1>4 DEF Extra
  <2> QED BY <1>1, <1>2, <2>2, <2>3
<1> QED BY <1>3, <1>4

(* C11 and C13 as TLC checks them *)
THEOREM IndInvImplies == IndInv => OneInstance /\ Aliasing /\ TypeSafe /\ Registered
  BY DEF IndInv, OneInstance, Aliasing, TypeSafe, Registered, View
=============================================================================
