------------------------- MODULE AbyRegProofs -------------------------
(* Why handles alias (C11), for EVERY number of names, key types, handles and instances: the        *)
(* lookup discipline of AbyReg (every getter consults the registry of its key type; an existing     *)
(* file must carry the signature of the requested type; the signatures of the key types are         *)
(* distinct) keeps ONE buffered instance per map name.  TLC checks the same for 2 names x 3 types   *)
(* x 3 handles (MCReg_q) and shows that the invariant breaks without either premise (MCReg_d8,      *)
(* MCReg_nolookup).  Proved with TLAPS:  cd spec/proofs && tlapm -I .. --threads 8 AbyRegProofs.tla  *)
EXTENDS AbyReg, TLAPS

ASSUME Premises == /\ AlwaysLookup = TRUE
                   /\ \A t1, t2 \in Types : SigOf[t1] = SigOf[t2] => t1 = t2      \* distinct signatures

IndInv ==
    /\ nid \in Nat /\ DOMAIN reg = Types
    /\ \A i \in DOMAIN inst : i \in Nat /\ i < nid /\ inst[i].kt \in Types
    /\ \A h \in DOMAIN hnd : hnd[h] \in DOMAIN inst
    \* every instance is registered under its key type and name, and the registries hold nothing else
    /\ \A i \in DOMAIN inst : inst[i].name \in DOMAIN reg[inst[i].kt] /\ reg[inst[i].kt][inst[i].name] = i
    /\ \A t \in Types : \A nm \in DOMAIN reg[t] : reg[t][nm] \in DOMAIN inst /\ inst[reg[t][nm]].name = nm /\ inst[reg[t][nm]].kt = t
    \* an instance exists only over files that were created for its key type
    /\ \A i \in DOMAIN inst : inst[i].name \in DOMAIN disk /\ disk[inst[i].name].kt = inst[i].kt
                              /\ disk[inst[i].name].sig = SigOf[inst[i].kt]
    /\ \A nm \in DOMAIN disk : disk[nm].kt \in Types /\ disk[nm].sig = SigOf[disk[nm].kt]
    \* one buffered instance per name
    /\ \A i, j \in DOMAIN inst : inst[i].name = inst[j].name => i = j

LEMMA InitInv == Init => IndInv
  BY DEF Init, IndInv

LEMMA OpenFilesInv ==
    ASSUME IndInv, NEW h \in Handles, NEW t \in Types, NEW nm \in Names,
           h \notin DOMAIN hnd, nm \notin DOMAIN reg[t], OpenFiles(h, t, nm)
    PROVE  IndInv'
<1> USE Premises
<1>0. \A j \in DOMAIN inst : inst[j].name # nm \/ (nm \in DOMAIN disk /\ disk[nm].sig # SigOf[t])
  <2> SUFFICES ASSUME NEW j \in DOMAIN inst, inst[j].name = nm
               PROVE  nm \in DOMAIN disk /\ disk[nm].sig # SigOf[t]
    OBVIOUS
  <2>1. nm \in DOMAIN disk /\ disk[nm].sig = SigOf[inst[j].kt] /\ inst[j].kt \in Types
    BY DEF IndInv
  <2>2. inst[j].kt # t
    BY DEF IndInv
  <2> QED BY <2>1, <2>2
<1>1. CASE nm \in DOMAIN disk /\ disk[nm].sig = SigOf[t]
  <2>1. /\ inst' = [x \in (DOMAIN inst) \cup {nid} |-> IF x = nid THEN [name |-> nm, kt |-> t, content |-> disk[nm].content, dirty |-> FALSE] ELSE inst[x]]
        /\ reg' = [reg EXCEPT ![t] = [x \in (DOMAIN reg[t]) \cup {nm} |-> IF x = nm THEN nid ELSE reg[t][x]]]
        /\ hnd' = [x \in (DOMAIN hnd) \cup {h} |-> IF x = h THEN nid ELSE hnd[x]] /\ nid' = nid + 1 /\ disk' = disk
    BY <1>1 DEF OpenFiles, NewId, Ext
  <2>2. \A j \in DOMAIN inst : inst[j].name # nm
    BY <1>0, <1>1
  <2>3. nid \notin DOMAIN inst
    BY DEF IndInv
  <2>4. disk[nm].kt = t
    BY <1>1 DEF IndInv
  <2>5. DOMAIN inst' = (DOMAIN inst) \cup {nid} /\ DOMAIN hnd' = (DOMAIN hnd) \cup {h} /\ DOMAIN reg' = Types
        /\ (\A x \in DOMAIN inst : inst'[x] = inst[x])
        /\ inst'[nid].name = nm /\ inst'[nid].kt = t
        /\ (\A x \in DOMAIN hnd : x # h => hnd'[x] = hnd[x]) /\ hnd'[h] = nid
        /\ (\A tt \in Types : tt # t => reg'[tt] = reg[tt])
        /\ DOMAIN reg'[t] = (DOMAIN reg[t]) \cup {nm} /\ reg'[t][nm] = nid
        /\ (\A x \in DOMAIN reg[t] : x # nm => reg'[t][x] = reg[t][x])
    BY <2>1, <2>3 DEF IndInv
  <2>a. nid' \in Nat /\ DOMAIN reg' = Types
    BY <2>1, <2>5 DEF IndInv
  <2>b. \A i \in DOMAIN inst' : i \in Nat /\ i < nid' /\ inst'[i].kt \in Types
    BY <2>1, <2>5 DEF IndInv
  <2>c. \A hh \in DOMAIN hnd' : hnd'[hh] \in DOMAIN inst'
    BY <2>5 DEF IndInv
  <2>d. \A i \in DOMAIN inst' : inst'[i].name \in DOMAIN reg'[inst'[i].kt] /\ reg'[inst'[i].kt][inst'[i].name] = i
    BY <2>5, <2>2 DEF IndInv
  <2>e. \A tt \in Types : \A x \in DOMAIN reg'[tt] : reg'[tt][x] \in DOMAIN inst' /\ inst'[reg'[tt][x]].name = x /\ inst'[reg'[tt][x]].kt = tt
    BY <2>5, <2>3 DEF IndInv
  <2>f. \A i \in DOMAIN inst' : inst'[i].name \in DOMAIN disk' /\ disk'[inst'[i].name].kt = inst'[i].kt
                                  /\ disk'[inst'[i].name].sig = SigOf[inst'[i].kt]
    BY <2>1, <2>5, <2>4, <1>1 DEF IndInv
  <2>g. \A x \in DOMAIN disk' : disk'[x].kt \in Types /\ disk'[x].sig = SigOf[disk'[x].kt]
    BY <2>1 DEF IndInv
  <2>h. \A i, j \in DOMAIN inst' : inst'[i].name = inst'[j].name => i = j
    BY <2>5, <2>2 DEF IndInv
  <2> QED
    BY <2>a, <2>b, <2>c, <2>d, <2>e, <2>f, <2>g, <2>h DEF IndInv
<1>2. CASE nm \in DOMAIN disk /\ disk[nm].sig # SigOf[t]
  BY <1>2 DEF OpenFiles, IndInv
<1>3. CASE nm \notin DOMAIN disk
  <2>1. /\ disk' = [x \in (DOMAIN disk) \cup {nm} |-> IF x = nm THEN [sig |-> SigOf[t], kt |-> t, content |-> <<>>] ELSE disk[x]]
        /\ inst' = [x \in (DOMAIN inst) \cup {nid} |-> IF x = nid THEN [name |-> nm, kt |-> t, content |-> <<>>, dirty |-> FALSE] ELSE inst[x]]
        /\ reg' = [reg EXCEPT ![t] = [x \in (DOMAIN reg[t]) \cup {nm} |-> IF x = nm THEN nid ELSE reg[t][x]]]
        /\ hnd' = [x \in (DOMAIN hnd) \cup {h} |-> IF x = h THEN nid ELSE hnd[x]] /\ nid' = nid + 1
    BY <1>3 DEF OpenFiles, NewId, Ext
  <2>2. \A j \in DOMAIN inst : inst[j].name # nm
    BY <1>3 DEF IndInv
  <2>3. nid \notin DOMAIN inst
    BY DEF IndInv
  <2> QED
    BY <2>1, <2>2, <2>3 DEF IndInv
<1> QED BY <1>1, <1>2, <1>3

THEOREM StepInv == IndInv /\ [Next]_vars => IndInv'
<1> SUFFICES ASSUME IndInv, [Next]_vars PROVE IndInv'
  OBVIOUS
<1> USE Premises
<1>1. ASSUME NEW h \in Handles, NEW t \in Types, NEW nm \in Names, NEW wp \in BOOLEAN, GetMap(h, t, nm, wp) PROVE IndInv'
  <2>1. CASE nm \in DOMAIN reg[t]
    <3>1. hnd' = [x \in (DOMAIN hnd) \cup {h} |-> IF x = h THEN reg[t][nm] ELSE hnd[x]] /\ UNCHANGED <<disk, inst, reg, nid>>
      BY <1>1, <2>1 DEF GetMap, Ext
    <3> QED BY <3>1, <2>1 DEF IndInv
  <2>2. CASE nm \notin DOMAIN reg[t]
    <3>1. h \notin DOMAIN hnd /\ OpenFiles(h, t, nm)
      BY <1>1, <2>2 DEF GetMap
    <3> QED BY <3>1, <2>2, OpenFilesInv
  <2> QED BY <2>1, <2>2
<1>2. ASSUME NEW h \in Handles, NEW g \in Handles, CloneHandle(h, g) PROVE IndInv'
  BY <1>2 DEF CloneHandle, IndInv, Ext
<1>3. ASSUME NEW h \in Handles, NEW k \in Keys, NEW v \in Vals, Put(h, k, v) PROVE IndInv'
  BY <1>3 DEF Put, IndInv, Ext
<1>4. ASSUME NEW h \in Handles, NEW k \in Keys, Del(h, k) PROVE IndInv'
  BY <1>4 DEF Del, IndInv
<1>5. ASSUME NEW h \in Handles, Flush(h) PROVE IndInv'
  BY <1>5 DEF Flush, IndInv
<1>6. ASSUME SyncDb PROVE IndInv'
  BY <1>6 DEF SyncDb, IndInv
<1>7. ASSUME UNCHANGED vars PROVE IndInv'
  BY <1>7 DEF vars, IndInv
<1> QED
  BY <1>1, <1>2, <1>3, <1>4, <1>5, <1>6, <1>7 DEF Next

THEOREM Safety == Spec => []IndInv
  BY InitInv, StepInv, PTL DEF Spec

(* C11 and C13 as TLC checks them *)
THEOREM IndInvImplies == IndInv => OneInstance /\ Aliasing /\ TypeSafe /\ Registered
  BY DEF IndInv, OneInstance, Aliasing, TypeSafe, Registered, View
=============================================================================
