--------------------------- MODULE AbyFormat ---------------------------
(* The byte-level file format of one map: `<name>.htx`, `<name>.key`, `<name>.val`            *)
(* (src/filedb/inner/htx.rs, key.rs, val.rs header maps; vfile.rs piece readers/writers).     *)
(*                                                                                            *)
(*   .htx   0  "abysdbH\0"   8  type signature   16  u64le bucket count n   24  u64le item     *)
(*          count   32..127 reserved (zero)   128  n x u64le chain heads (key piece offsets)  *)
(*          128+8n  occupancy bitmap, bit (i % 8) of byte (i / 8) <=> bucket i has a chain     *)
(*   .key   0  "abysdbK\0"   8  type signature   16..47 reserved   48  16 x u64le free-list    *)
(*          heads (one per size class)   176..191 reserved   192  pieces                      *)
(*   .val   0  "abysdbV\0"   8  type signature   16..31 reserved   32  16 x u64le free-list    *)
(*          heads   160..191 reserved   192  pieces                                           *)
(*   used key piece    vu64(size/8) vu64(key length) key bytes vu64(value offset/8)            *)
(*                     vu64(next in chain/8) zero padding up to size                          *)
(*   used value piece  vu64(size/8) vu64(value length) value bytes zero padding                *)
(*   free piece        vu64(size/8) 0x00 u64le(next free piece of the class) zero padding      *)
(*                                                                                            *)
(* A file is a 1-based sequence of bytes; file offsets are 0-based.  Like the conformance      *)
(* decoder (harness/src/decode.rs) this module classifies nothing: every piece gets BOTH raw   *)
(* interpretations, which pieces are used is decided by AbyStore's reachability formulas.      *)
(* Numbers that do not fit TLC's 32-bit integers are reported as -1 (cap), as the decoder does.*)
(* The trace specification evaluates FmtDecode on the raw bytes logged with a `decode` event   *)
(* and compares it with the decoder's output: the format is stated HERE, the Rust decoder is   *)
(* only its fast implementation.                                                              *)
EXTENDS Integers, Sequences, AbyCodec

FmtHtxHdr == 128
DatHdr == 192
SigHtx == <<97, 98, 121, 115, 100, 98, 72, 0>>      \* "abysdbH\0"
SigKey == <<97, 98, 121, 115, 100, 98, 75, 0>>      \* "abysdbK\0"
SigVal == <<97, 98, 121, 115, 100, 98, 86, 0>>      \* "abysdbV\0"
\* 8-byte type signatures (kt_*.rs signature()): "string", "bytes", "u64_le" (u64 AND vu64: finding D8), "i64_le"
TypeSig(kt) == CASE kt = "string" -> <<115, 116, 114, 105, 110, 103, 0, 0>>
                 [] kt = "bytes"  -> <<98, 121, 116, 101, 115, 0, 0, 0>>
                 [] kt = "u64"    -> <<117, 54, 52, 95, 108, 101, 0, 0>>
                 [] kt = "vu64"   -> <<117, 54, 52, 95, 108, 101, 0, 0>>
                 [] kt = "i64"    -> <<105, 54, 52, 95, 108, 101, 0, 0>>
                 [] OTHER -> <<>>

At(b, p) == b[p + 1]
WCap(w) == IF w[3] # 0 \/ w[4] # 0 \/ w[2] >= 32768 THEN -1 ELSE w[1] + 65536 * w[2]
\* eight times a word, capped (the stored fields are offsets and sizes divided by 8)
Cap8(w) == IF w[4] >= 8192 THEN -1 ELSE WCap(WShl(w, 3))
U64At(b, p) == IF p + 8 > Len(b) THEN -1 ELSE WCap(FromLE(SubSeq(b, p + 1, p + 8)))
NoVu == [ok |-> FALSE, w |-> WZero, q |-> 0]
Vu64At(b, p) == IF p >= Len(b) THEN NoVu
                ELSE LET L == LeadingOnes(At(b, p)) + 1 IN
                     IF p + L > Len(b) THEN NoVu ELSE [ok |-> TRUE, w |-> Vu64Dec(SubSeq(b, p + 1, p + L)), q |-> p + L]
AllZero(b, from, to) == from >= to \/ (to <= Len(b) /\ \A j \in from..(to - 1) : At(b, j) = 0)
SigAt(b, p) == IF Len(b) >= p + 8 THEN SubSeq(b, p + 1, p + 8) ELSE <<>>

\* one piece at offset p (both interpretations), or "stop": the walk ends where no piece can start
NoPiece == [stop |-> TRUE]
PieceAt(b, p, isKey) ==
    LET s == Vu64At(b, p) IN
    IF ~s.ok THEN NoPiece ELSE
    LET size == Cap8(s.w) IN
    IF size <= 0 \/ p + size > Len(b) THEN NoPiece ELSE
    LET end == p + size
        q   == s.q
        l   == Vu64At(b, q)
        isf == q < Len(b) /\ At(b, q) = 0 /\ q + 9 <= end
        lenv == IF l.ok THEN WCap(l.w) ELSE -1
        fits == l.ok /\ lenv >= 0 /\ l.q + lenv <= end
        after == l.q + lenv
        vo  == IF fits /\ isKey THEN Vu64At(b, after) ELSE NoVu
        nx  == IF vo.ok THEN Vu64At(b, vo.q) ELSE NoVu
        lnk == vo.ok /\ nx.ok /\ nx.q <= end
        \* bytes the record needs from the start of its slot, whether or not they fit the slot
        infile == l.ok /\ lenv >= 0 /\ l.q + lenv <= Len(b)
        vo2 == IF infile /\ isKey THEN Vu64At(b, l.q + lenv) ELSE NoVu
        nx2 == IF vo2.ok THEN Vu64At(b, vo2.q) ELSE NoVu
        need == IF ~infile THEN -1 ELSE IF ~isKey THEN l.q + lenv - p ELSE IF nx2.ok THEN nx2.q - p ELSE -1
    IN [stop |-> FALSE, off |-> p, size |-> size, need |-> need,
        fnext |-> IF isf THEN U64At(b, q + 1) ELSE -1,
        fpad  |-> isf /\ AllZero(b, q + 9, end),
        len   |-> IF fits THEN lenv ELSE -1,
        body  |-> IF fits THEN <<l.q, after>> ELSE <<0, 0>>,          \* [from, to) of the payload
        voff  |-> IF lnk THEN Cap8(vo.w) ELSE -1,
        nxt   |-> IF lnk THEN Cap8(nx.w) ELSE -1,
        pad   |-> IF ~fits THEN FALSE ELSE IF isKey THEN lnk /\ AllZero(b, nx.q, end) ELSE AllZero(b, after, end)]

RECURSIVE FmtWalkFrom(_, _, _, _, _)
FmtWalkFrom(b, p, isKey, acc, max) ==
    IF p >= Len(b) \/ Len(acc) >= max THEN [slots |-> acc, walk |-> p, truncated |-> (p < Len(b) /\ Len(acc) >= max)]
    ELSE LET x == PieceAt(b, p, isKey) IN
         IF x.stop THEN [slots |-> acc, walk |-> p, truncated |-> FALSE]
         ELSE FmtWalkFrom(b, p + x.size, isKey, Append(acc, x), max)
Walk(b, isKey, max) == FmtWalkFrom(b, DatHdr, isKey, <<>>, max)

FreeHeads(b, base) == [c \in 1..16 |-> U64At(b, base + 8 * (c - 1))]

\* the .htx file: bucket count, item count, chain heads (non-zero ones), flagged buckets
HtxDecode(b) ==
    LET n == IF Len(b) < 24 THEN 0 ELSE U64At(b, 16)
        ok == n >= 0 /\ FmtHtxHdr + 8 * n <= Len(b)
        bms == FmtHtxHdr + 8 * n
    IN [n |-> n, cnt |-> IF Len(b) < 32 THEN 0 ELSE U64At(b, 24), hlen |-> Len(b), heads_ok |-> ok,
        heads |-> IF ok THEN {<<i, U64At(b, FmtHtxHdr + 8 * i)>> : i \in {j \in 0..(n - 1) : U64At(b, FmtHtxHdr + 8 * j) # 0}} ELSE {},
        bm |-> IF ok THEN {x \in 0..(8 * (Len(b) - bms) - 1) : (At(b, bms + (x \div 8)) \div Pow2(x % 8)) % 2 = 1} ELSE {}]

\* the whole map, in the shape of the decoder's output
FmtDecode(htx, key, val, max) ==
    LET h == HtxDecode(htx)
        k == Walk(key, TRUE, max)
        v == Walk(val, FALSE, max)
    IN [n |-> h.n, cnt |-> h.cnt, hlen |-> h.hlen, heads_ok |-> h.heads_ok, heads |-> h.heads, bm |-> h.bm,
        sig1 |-> <<SigAt(htx, 0), SigAt(key, 0), SigAt(val, 0)>>,
        sig2 |-> <<SigAt(htx, 8), SigAt(key, 8), SigAt(val, 8)>>,
        hdr_zero |-> <<AllZero(htx, 32, IF Len(htx) < FmtHtxHdr THEN Len(htx) ELSE FmtHtxHdr),
                       AllZero(key, 16, IF Len(key) < 48 THEN Len(key) ELSE 48) /\ AllZero(key, 176, IF Len(key) < DatHdr THEN Len(key) ELSE DatHdr),
                       AllZero(val, 16, IF Len(val) < 32 THEN Len(val) ELSE 32) /\ AllZero(val, 160, IF Len(val) < DatHdr THEN Len(val) ELSE DatHdr)>>,
        ks |-> k.slots, kwalk |-> k.walk, kend |-> Len(key),
        vs |-> v.slots, vwalk |-> v.walk, vend |-> Len(val),
        truncated |-> k.truncated \/ v.truncated,
        kfree |-> FreeHeads(key, 48), vfree |-> FreeHeads(val, 32)]

\* ---- comparison with the conformance decoder's output (JSON record `st` of a decode event) ----
SigStr(sig, which) == \* the decoder prints signatures as text with "~" for NUL
    IF which = 1 THEN (IF sig = SigHtx THEN "abysdbH~" ELSE IF sig = SigKey THEN "abysdbK~" ELSE IF sig = SigVal THEN "abysdbV~" ELSE "?")
    ELSE (IF sig = TypeSig("string") THEN "string~~" ELSE IF sig = TypeSig("bytes") THEN "bytes~~~"
          ELSE IF sig = TypeSig("u64") THEN "u64_le~~" ELSE IF sig = TypeSig("i64") THEN "i64_le~~" ELSE "?")
KnownSig(str) == str \in {"abysdbH~", "abysdbK~", "abysdbV~", "string~~", "bytes~~~", "u64_le~~", "i64_le~~"}
SameSlots(js, fs) ==
    Len(js) = Len(fs) /\
    \A i \in 1..Len(js) :
        /\ js[i].off = fs[i].off /\ js[i].size = fs[i].size /\ js[i].fnext = fs[i].fnext /\ js[i].fpad = fs[i].fpad
        /\ js[i].len = fs[i].len /\ js[i].voff = fs[i].voff /\ js[i].nxt = fs[i].nxt /\ js[i].pad = fs[i].pad
        /\ js[i].need = fs[i].need
\* names of the fields on which the two decoders disagree
FmtDiff(j, f) ==
    (IF j.n = f.n /\ j.cnt = f.cnt /\ j.hlen = f.hlen /\ j.heads_ok = f.heads_ok THEN {} ELSE {"TOOL.format_htx_header"})
    \cup (IF {<<j.heads[i][1], j.heads[i][2]>> : i \in 1..Len(j.heads)} = f.heads THEN {} ELSE {"TOOL.format_heads"})
    \cup (IF {j.bm[i] : i \in 1..Len(j.bm)} = f.bm THEN {} ELSE {"TOOL.format_bitmap"})
    \cup (IF \A i \in 1..3 : (KnownSig(j.sig1[i]) \/ SigStr(f.sig1[i], 1) # "?") => j.sig1[i] = SigStr(f.sig1[i], 1) THEN {} ELSE {"TOOL.format_sig1"})
    \cup (IF \A i \in 1..3 : (KnownSig(j.sig2[i]) \/ SigStr(f.sig2[i], 2) # "?") => j.sig2[i] = SigStr(f.sig2[i], 2) THEN {} ELSE {"TOOL.format_sig2"})
    \cup (IF \A i \in 1..3 : j.hdr_zero[i] = f.hdr_zero[i] THEN {} ELSE {"TOOL.format_reserved"})
    \cup (IF SameSlots(j.ks, f.ks) /\ j.kwalk = f.kwalk /\ j.kend = f.kend THEN {} ELSE {"TOOL.format_key_pieces"})
    \cup (IF SameSlots(j.vs, f.vs) /\ j.vwalk = f.vwalk /\ j.vend = f.vend THEN {} ELSE {"TOOL.format_value_pieces"})
    \cup (IF j.truncated = f.truncated THEN {} ELSE {"TOOL.format_truncated"})
    \cup (IF \A c \in 1..16 : j.kfree[c] = f.kfree[c] /\ j.vfree[c] = f.vfree[c] THEN {} ELSE {"TOOL.format_free_heads"})
=============================================================================
