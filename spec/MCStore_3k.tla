--------------------------- MODULE MCStore_3k ---------------------------
(* A larger alphabet than MCStore_t: three colliding keys (10, 11 and 18 bytes) x four value      *)
(* sizes incl. the empty value and the shared large list, two buckets (key 3 alone in bucket 1).   *)
(* Too large for closure in minutes: explored by TLC's random simulation in the thorough tier.     *)
EXTENDS MCStore
MC_KLen == (1 :> 10) @@ (2 :> 11) @@ (3 :> 18) @@ (4 :> 10)
MC_VLen == (1 :> 3) @@ (2 :> 20) @@ (3 :> 1100) @@ (4 :> 0) @@ (5 :> 2000)
MC_KH   == (1 :> 0) @@ (2 :> 0) @@ (3 :> 1) @@ (4 :> 0)
MC_Prefix == <<>>
=============================================================================
