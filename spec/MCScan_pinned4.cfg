SPECIFICATION Spec
CONSTANTS
  N = 4
  MaxOcc = 0
  Fixed = FALSE
  AllSubsets = TRUE
INVARIANT ScanOK
CHECK_DEADLOCK FALSE
