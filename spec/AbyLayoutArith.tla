------------------------- MODULE AbyLayoutArith -------------------------
(* Record layout arithmetic of abyssiniandb 0.1.4, default features (vf_vu64, htx_bitmap). *)
(* Anchors: piece.rs (PieceMgr::roundup, free_piece_list_offset_of_header,              *)
(* is_large_piece_size), key.rs:350-393 and val.rs:307-329 (encoded_piece_size),         *)
(* key.rs:395-422 / val.rs:331-347 (dat_write_piece_one), vfile.rs:744-812 (size/8 and   *)
(* offset/8 scaling), htx.rs:51-126 (bucket count and .htx length), vu64 0.1.11.         *)
EXTENDS Integers, Sequences

KeyHdr == 192           \* size of the .key header; first slot starts here
ValHdr == 192           \* size of the .val header
HtxHdr == 128           \* size of the .htx header; bucket heads start here
DefaultBuckets == 16777216

\* the 16 size classes (REC_SIZE_ARY); class 16 (1024) is the shared "large" list
Classes == <<16, 24, 32, 48, 64, 80, 96, 112, 128, 256, 384, 512, 640, 768, 896, 1024>>
NClasses == 16
LargeMin == 1024

\* vu64::encoded_len for values below 2^31 (TLC integers are 32 bit)
EncLen(v) == IF v < 128 THEN 1
             ELSE IF v < 16384 THEN 2
             ELSE IF v < 2097152 THEN 3
             ELSE IF v < 268435456 THEN 4
             ELSE 5

\* PieceMgr::roundup: first of the 15 small classes that fits, else next multiple of 128
\* strictly above x (note (x+128) div 128: a multiple of 128 is still bumped)
Roundup(x) == IF x <= 16 THEN 16 ELSE IF x <= 24 THEN 24 ELSE IF x <= 32 THEN 32
              ELSE IF x <= 48 THEN 48 ELSE IF x <= 64 THEN 64 ELSE IF x <= 80 THEN 80
              ELSE IF x <= 96 THEN 96 ELSE IF x <= 112 THEN 112 ELSE IF x <= 128 THEN 128
              ELSE IF x <= 256 THEN 256 ELSE IF x <= 384 THEN 384 ELSE IF x <= 512 THEN 512
              ELSE IF x <= 640 THEN 640 ELSE IF x <= 768 THEN 768 ELSE IF x <= 896 THEN 896
              ELSE ((x + 128) \div 128) * 128

IsLarge(size) == size >= LargeMin

\* PieceMgr::free_piece_list_offset_of_header: index (1..16) of the free list of a slot size
ClassIdx(size) == IF size = 16 THEN 1 ELSE IF size = 24 THEN 2 ELSE IF size = 32 THEN 3
                  ELSE IF size = 48 THEN 4 ELSE IF size = 64 THEN 5 ELSE IF size = 80 THEN 6
                  ELSE IF size = 96 THEN 7 ELSE IF size = 112 THEN 8 ELSE IF size = 128 THEN 9
                  ELSE IF size = 256 THEN 10 ELSE IF size = 384 THEN 11 ELSE IF size = 512 THEN 12
                  ELSE IF size = 640 THEN 13 ELSE IF size = 768 THEN 14 ELSE IF size = 896 THEN 15
                  ELSE 16

\* a legal slot size: one of the classes, or a multiple of 128 above 1024
LegalSize(size) == \/ \E i \in 1..NClasses : Classes[i] = size
                   \/ (size > LargeMin /\ size % 128 = 0)

(* value record: vu64(slot/8) vu64(vlen) value zeros *)
ValNeed(vlen)  == EncLen(vlen) + vlen                          \* "piece_len"
ValEnc(vlen)   == EncLen((ValNeed(vlen) + 7) \div 8)            \* "encorded_piece_len"
ValSlot(vlen)  == Roundup(ValEnc(vlen) + ValNeed(vlen))         \* slot a fresh record gets
\* bytes really written in front of the padding, for a record living in a slot of `slot` bytes
ValActual(vlen, slot) == EncLen(slot \div 8) + EncLen(vlen) + vlen

(* key record: vu64(slot/8) vu64(klen) key vu64(voff/8) vu64(next/8) zeros.             *)
(* The estimate uses the width of the raw offsets, the writer stores offset/8.            *)
KeyNeed(klen, voff, nxt) == EncLen(klen) + klen + EncLen(voff) + EncLen(nxt)
KeyEnc(klen, voff, nxt)  == EncLen((KeyNeed(klen, voff, nxt) + 7) \div 8)
KeySlot(klen, voff, nxt) == Roundup(KeyEnc(klen, voff, nxt) + KeyNeed(klen, voff, nxt))
KeyActual(klen, voff, nxt, slot) ==
    EncLen(slot \div 8) + EncLen(klen) + klen + EncLen(voff \div 8) + EncLen(nxt \div 8)

\* a free slot: vu64(slot/8) 0x00 u64le(next free) zeros
FreeActual(slot) == EncLen(slot \div 8) + 1 + 8

(* properties of the arithmetic itself (checked exhaustively by MCLayout) *)
ValFits(vlen) == LET s == ValSlot(vlen) IN
    /\ ValActual(vlen, s) <= s /\ s % 8 = 0 /\ s >= 16 /\ LegalSize(s)
KeyFits(klen, voff, nxt) == LET s == KeySlot(klen, voff, nxt) IN
    /\ KeyActual(klen, voff, nxt, s) <= s /\ s % 8 = 0 /\ s >= 16 /\ LegalSize(s)
    /\ FreeActual(s) <= s
=============================================================================
