--------------------------- MODULE MCStore ---------------------------
(* Exhaustive model checking of the design layer (AbyStore) against the contract layer    *)
(* (AbyMap) for a small alphabet of keys and value sizes: every interleaving of put /      *)
(* overwrite / delete.  No state constraint: termination shows the reachable set (and so   *)
(* the file sizes) is finite for a finite alphabet (C06).                                  *)
EXTENDS AbyStore, AbyScan, Sequences

CONSTANTS NB,        \* number of buckets
          Keys,      \* set of key ids operated on
          Vals,      \* set of value ids
          Prefix     \* sequence of <<"put", k, v>> / <<"del", k>> applied before exploring

VARIABLES S, mem
vars == <<S, mem>>

M == INSTANCE AbyMap

RECURSIVE ApplyAll(_, _, _)
ApplyAll(s, m, ops) ==
    IF ops = <<>> THEN <<s, m>>
    ELSE LET op == Head(ops) IN
         IF op[1] = "put" THEN ApplyAll(Put(s, op[2], op[3]), M!MPut(m, op[2], op[3]), Tail(ops))
         ELSE ApplyAll(Del(s, op[2])[1], M!MDel(m, op[2])[1], Tail(ops))

Init == LET r == ApplyAll(EmptyStore(NB), M!EmptyMap, Prefix) IN S = r[1] /\ mem = r[2]

DoPut(k, v) == S' = Put(S, k, v) /\ mem' = M!MPut(mem, k, v)
DoDel(k)    == S' = Del(S, k)[1] /\ mem' = M!MDel(mem, k)[1]
Next == \/ \E k \in Keys, v \in Vals : DoPut(k, v)
        \/ \E k \in Keys : DoDel(k)
Spec == Init /\ [][Next]_vars

(* invariants *)
\* one derived record per state; all structural invariants in one formula
InvAll == LET D == Derive(S) IN
          /\ StructureOKD(S, D)                     \* C05
          /\ SpaceOKD(S, D) /\ UsedFlagsOK(S)       \* C06
          /\ FitsOKD(S, D) /\ PadOKD(S, D)           \* C09
          /\ AbsMapD(S, D) = mem                    \* C01 / C08: the files hold the ideal map
InvStructure == StructureOK(S)                      \* C05
InvSpace     == SpaceOK(S) /\ UsedFlagsOK(S)        \* C06
InvFits      == FitsOK(S)                           \* C09
InvRefines   == /\ AbsMap(S) = mem                  \* C01 / C08: the files hold the ideal map
                /\ \A k \in DOMAIN KLen : Get(S, k) = M!MGet(mem, k)
                /\ S.cnt = M!MLen(mem)
InvDelResult == \A k \in Keys : Del(S, k)[2] = M!MGet(mem, k)    \* delete returns what it removes
InvStats     == StatsOK(S)                          \* C17
InvBitmap    == BitmapExact(S)
InvIter      == LET it == Iterate(S) IN             \* C04 on every reachable storage state
                /\ M!ItemsAreMap(it.items, mem) /\ M!HintsExact(it.hints, M!MLen(mem)) /\ it.fused
\* deterministic design: one successor per (state, operation) by construction (no \E inside
\* Put/Del); C18 on the design layer

(* witness properties: TLC must VIOLATE these; they show that the relocation branches are  *)
(* reachable in this configuration (vacuity guard for C08)                                 *)
KeyOff(s, k) == Find(s, k)[1]
MovedOthers(k) == {j \in DOMAIN KLen : j # k /\ KeyOff(S, j) # 0 /\ KeyOff(S', j) # 0 /\ KeyOff(S, j) # KeyOff(S', j)}
NoValMove   == [][\A k \in Keys : (KeyOff(S, k) # 0 /\ KeyOff(S', k) # 0) =>
                     S.kf.slots[KeyOff(S, k)].voff = S'.kf.slots[KeyOff(S', k)].voff]_vars
NoKeyMove   == [][\A k \in Keys : (KeyOff(S, k) # 0 /\ KeyOff(S', k) # 0) => KeyOff(S, k) = KeyOff(S', k)]_vars
NoOtherMove1 == [][\A k \in Keys : (\E v \in Vals : S' = Put(S, k, v)) \/ S' = Del(S, k)[1] => Cardinality(MovedOthers(k)) < 1]_vars
NoOtherMove2 == [][\A k \in Keys : (\E v \in Vals : S' = Put(S, k, v)) \/ S' = Del(S, k)[1] => Cardinality(MovedOthers(k)) < 2]_vars
NoLargeReuse == [][\A o \in DOMAIN S'.vf.slots : (o \in DOMAIN S.vf.slots /\ ~S.vf.slots[o].used /\ S'.vf.slots[o].used /\ S'.vf.slots[o].size >= 1024)
                     => ValSlot(S'.vf.slots[o].len) = S'.vf.slots[o].size]_vars
=============================================================================
