SPECIFICATION Spec
CONSTANTS
  NB = 1
  Keys = {1, 2}
  Vals = {1, 2}
  KLen <- MC_KLen
  VLen <- MC_VLen
  KH <- MC_KH
INVARIANTS Bound
CHECK_DEADLOCK FALSE
