--------------------------- MODULE MCLayout ---------------------------
(* Exhaustive check of the slot arithmetic (AbyLayout, C09): for every value length 0..MaxV and     *)
(* every key length 0..MaxK x one offset per encoding width, the encoded record never exceeds the    *)
(* slot reserved for it, slots are legal sizes, and the slot size is monotone in the length.         *)
EXTENDS AbyLayout, TLC
CONSTANTS MaxV, MaxK
\* one offset per width class of the raw offset (estimate) and of offset/8 (writer)
VOffs == {192, 16376, 16384, 131064, 131072, 2097144, 2097152, 268435448, 268435456, 2147483640}
NOffs == {0} \cup VOffs
ValOK == \A l \in 0..MaxV : ValFits(l) /\ (l = 0 \/ ValSlot(l - 1) <= ValSlot(l))
KeyOK == \A l \in 0..MaxK : \A vo \in VOffs : \A nx \in NOffs :
            KeyFits(l, vo, nx) /\ (l = 0 \/ KeySlot(l - 1, vo, nx) <= KeySlot(l, vo, nx))
\* a record that exactly fills its slot exists (the +1 of the large rounding is what keeps the
\* size field estimate safe): witness that the bound is tight somewhere
Tight == \E l \in 0..2000 : ValActual(l, ValSlot(l)) = ValSlot(l)
BucketsOK == /\ BucketsFromParam("BucketsSize", 1) = 1 /\ BucketsFromParam("BucketsSize", 3) = 4
             /\ BucketsFromParam("BucketsSize", 100) = 128 /\ BucketsFromParam("Capacity", 1) = 8
             /\ BucketsFromParam("Capacity", 7) = 8 /\ BucketsFromParam("Capacity", 8) = 16
             /\ BucketsFromParam("Capacity", 100) = 128 /\ BucketsFromParam("Capacity", 65536) = 131072
             /\ BucketsFromParam("Default", 0) = 16777216 /\ HtxLen(8) = 193 /\ HtxLen(2) = 144
ASSUME ValOK /\ KeyOK /\ Tight /\ BucketsOK /\ PrintT(<<"MCLayout evaluated", MaxV + 1, (MaxK + 1) * 110>>)
VARIABLE x
Init == x = 0
Next == x' = x
Spec == Init /\ [][Next]_x
=============================================================================
