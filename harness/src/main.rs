//! abyverif: conformance harness binding the TLA+ specification of abyssiniandb to the crate.
mod bfs;
mod decode;
mod exec;
mod parent;
mod tables;

fn usage() -> ! {
    eprintln!("usage: abyverif run <root> <script> <trace> [op_timeout_s] [max_slots]\n       abyverif decode <dir> <name>\n       (internal) worker | dumpdir");
    std::process::exit(2)
}

fn main() {
    let a: Vec<String> = std::env::args().collect();
    if a.len() < 2 {
        usage();
    }
    match a[1].as_str() {
        "run" => {
            if a.len() < 5 { usage(); }
            let o = parent::RunOpts {
                strace: std::env::var("ABYVERIF_STRACE").is_ok(),
                root: a[2].clone(),
                script: a[3].clone(),
                trace: a[4].clone(),
                op_timeout: a.get(5).and_then(|s| s.parse().ok()).unwrap_or(20),
                max_slots: a.get(6).and_then(|s| s.parse().ok()).unwrap_or(2000),
            };
            let _ = std::fs::create_dir_all(&o.root);
            match parent::run_script(&o) {
                Ok(n) => println!("events {n}"),
                Err(e) => {
                    eprintln!("TOOL ERROR: {e}");
                    std::process::exit(2);
                }
            }
        }
        "bfs" => {
            // bfs <root> <spec.json> <out_prefix> <max_states> <edges_per_file>
            if a.len() < 7 { usage(); }
            if let Err(e) = bfs::run(&a[2], &a[3], &a[4], a[5].parse().unwrap(), a[6].parse().unwrap()) {
                eprintln!("TOOL ERROR: {e}");
                std::process::exit(2);
            }
        }
        "worker" => parent::worker(&a[2], &a[3], a[4].parse().unwrap(), a[5].parse().unwrap(), a[6].parse().unwrap()),
        "dumpdir" => exec::dumpdir(&a[2], &a[3], &a[4], &a[5], &a[6], &a[7], a.get(8).map(|s| s.as_str()).unwrap_or("null")),
        "decode" => {
            let t = tables::Tables::default();
            let st = decode::decode_dir(std::path::Path::new(&a[2]), &a[3], &t, usize::MAX);
            println!("{st}");
        }
        _ => usage(),
    }
}
