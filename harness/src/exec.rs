//! Worker: executes a slice of an operation script against the real crate and emits one trace
//! event (JSON line) per operation.  Panics of the code under test are caught and reported as
//! outcome "panic" (data, not a tool failure); after a panic the worker stops.
use crate::decode;
use crate::tables::Tables;
use abyssiniandb::filedb::{
    CheckFileDbMap, FileBufSizeParam, FileDb, FileDbMapDbBytes, FileDbMapDbI64, FileDbMapDbString,
    FileDbMapDbU64, FileDbMapDbVu64, FileDbParams, HashBucketsParam,
};
use abyssiniandb::{DbMap, DbMapKeyType, DbXxx, DbXxxBase};
use serde_json::{json, Map, Value};
use std::collections::BTreeMap;
use std::io::Write;
use std::panic::{catch_unwind, AssertUnwindSafe};
use std::path::{Path, PathBuf};

pub enum MapH {
    Str(FileDbMapDbString),
    Bytes(FileDbMapDbBytes),
    I64(FileDbMapDbI64),
    U64(FileDbMapDbU64),
    Vu64(FileDbMapDbVu64),
}

macro_rules! with_map {
    ($h:expr, $m:ident => $body:expr) => {
        match $h {
            MapH::Str($m) => $body,
            MapH::Bytes($m) => $body,
            MapH::I64($m) => $body,
            MapH::U64($m) => $body,
            MapH::Vu64($m) => $body,
        }
    };
}

impl MapH {
    fn clone_h(&self) -> MapH {
        match self {
            MapH::Str(m) => MapH::Str(m.clone()),
            MapH::Bytes(m) => MapH::Bytes(m.clone()),
            MapH::I64(m) => MapH::I64(m.clone()),
            MapH::U64(m) => MapH::U64(m.clone()),
            MapH::Vu64(m) => MapH::Vu64(m.clone()),
        }
    }
}

pub struct MapEnt {
    pub h: MapH,
    pub mapid: String,
    pub dir: String,
    pub name: String,
    pub kt: String,
}

pub struct Ctx {
    pub root: PathBuf,
    pub tables: Tables,
    pub dbs: BTreeMap<i64, (FileDb, String)>,
    pub maps: BTreeMap<i64, MapEnt>,
    pub max_slots: usize,
    pub script_path: String,
}

pub fn parse_buf(v: &Value) -> FileBufSizeParam {
    match v[0].as_str().unwrap_or("Auto") {
        "Size" => FileBufSizeParam::Size(v[1].as_u64().unwrap_or(0) as u32),
        "PerMille" => FileBufSizeParam::PerMille(v[1].as_u64().unwrap_or(1000) as u16),
        _ => FileBufSizeParam::Auto,
    }
}
pub fn parse_params(p: &Value) -> FileDbParams {
    let mut params = FileDbParams::default();
    if p.is_null() {
        return params;
    }
    if let Some(b) = p.get("buckets") {
        params.buckets_size = match b[0].as_str().unwrap_or("Default") {
            "BucketsSize" => HashBucketsParam::BucketsSize(b[1].as_u64().unwrap()),
            "Capacity" => HashBucketsParam::Capacity(b[1].as_u64().unwrap()),
            _ => HashBucketsParam::Default,
        };
    }
    if let Some(b) = p.get("key_buf") { params.key_buf_size = parse_buf(b); }
    if let Some(b) = p.get("val_buf") { params.val_buf_size = parse_buf(b); }
    if let Some(b) = p.get("htx_buf") { params.htx_buf_size = parse_buf(b); }
    params
}

/// io-trace hook (only with the default feature "hooks"; golden images are produced by a build of the
/// harness against the pinned release, which has no hooks)
#[cfg(feature = "hooks")]
fn io_take() -> Vec<(String, &'static str)> {
    abyssiniandb::filedb::verif::take_io_trace()
}
#[cfg(not(feature = "hooks"))]
fn io_take() -> Vec<(String, &'static str)> {
    Vec::new()
}

/// TLC's JSON module has no value for null: events never contain one
pub fn denull(v: &mut Value) {
    match v {
        Value::Null => *v = json!("-"),
        Value::Array(a) => a.iter_mut().for_each(denull),
        Value::Object(o) => o.values_mut().for_each(denull),
        _ => {}
    }
}

fn panic_msg(e: Box<dyn std::any::Any + Send>) -> String {
    if let Some(s) = e.downcast_ref::<&str>() {
        s.to_string()
    } else if let Some(s) = e.downcast_ref::<String>() {
        s.clone()
    } else {
        "panic (non-string payload)".to_string()
    }
}

fn io_err(e: &std::io::Error) -> Value {
    json!({"kind": format!("{:?}", e.kind()), "errno": e.raw_os_error(), "msg": format!("{e}")})
}

/// parses "[(16, 3), (24, 1)]" (Display of the statistics types)
fn parse_pairs(s: &str) -> Value {
    let mut out = vec![];
    let mut nums: Vec<i64> = vec![];
    let mut cur = String::new();
    for c in s.chars() {
        if c.is_ascii_digit() {
            cur.push(c);
        } else if !cur.is_empty() {
            nums.push(cur.parse().unwrap_or(-1));
            cur.clear();
        }
    }
    for p in nums.chunks(2) {
        if p.len() == 2 {
            out.push(json!([p[0], p[1]]));
        }
    }
    Value::Array(out)
}

fn val_id(t: &Tables, v: &Option<Vec<u8>>) -> i64 {
    match v {
        None => 0,
        Some(b) => t.vals.lookup(b),
    }
}

fn do_iter<KT: DbMapKeyType, I: Iterator<Item = (Option<KT>, Option<Vec<u8>>)>>(
    t: &Tables,
    mut it: I,
    hint: &dyn Fn(&I) -> (usize, Option<usize>),
    cap: usize,
    between: &mut dyn FnMut(usize),
) -> Value {
    let mut items = vec![];
    let mut hints = vec![];
    let mut overrun = false;
    loop {
        // read-only calls on the same map between two steps of the live traversal
        between(items.len());
        let h = hint(&it);
        hints.push(if Some(h.0) == h.1 { h.0 as i64 } else { -1 });
        match it.next() {
            None => break,
            Some((k, v)) => {
                let kid = k.map(|k| t.keys.lookup(k.as_bytes())).unwrap_or(0);
                let vid = v.map(|v| t.vals.lookup(&v)).unwrap_or(0);
                items.push(json!([kid, vid]));
                if items.len() > cap {
                    overrun = true;
                    break;
                }
            }
        }
    }
    let a = it.next().is_none();
    let b = it.next().is_none();
    json!({"items": items, "hints": hints, "fused": a && b, "overrun": overrun})
}

fn iter_map<KT: DbMapKeyType + for<'a> From<&'a [u8]>>(t: &Tables, m: &mut abyssiniandb::filedb::FileDbMap<KT>, flavour: &str, interleave: &[String], probe: &[Vec<u8>]) -> Value {
    let len = m.len().unwrap_or(0) as usize;
    let cap = 4 * len + 64;
    let mut m2 = m.clone();          // another handle to the same map (aliases the same state)
    let mut between = |step: usize| {
        if interleave.is_empty() { return; }
        match interleave[step % interleave.len()].as_str() {
            "len" => { let _ = m2.len(); }
            "is_empty" => { let _ = m2.is_empty(); }
            "new_iter" => { let _ = m2.keys().size_hint(); let _ = m2.iter().size_hint(); }
            "get" => { if !probe.is_empty() { let k = &probe[step % probe.len()]; let _ = m2.get::<[u8]>(&k[..]); } }
            "includes" => { if !probe.is_empty() { let k = &probe[step % probe.len()]; let _ = m2.includes_key::<[u8]>(&k[..]); } }
            _ => {}
        }
    };
    match flavour {
        "iter" => {
            let it = m.iter();
            do_iter::<KT, _>(t, it.map(|(k, v)| (Some(k), Some(v))), &|i| i.size_hint(), cap, &mut between)
        }
        "iter_mut" => {
            let it = m.iter_mut();
            do_iter::<KT, _>(t, it.map(|(k, v)| (Some(k), Some(v))), &|i| i.size_hint(), cap, &mut between)
        }
        "keys" => {
            let it = m.keys();
            do_iter::<KT, _>(t, it.map(|k| (Some(k), None)), &|i| i.size_hint(), cap, &mut between)
        }
        "values" => {
            let it = m.values();
            do_iter::<KT, _>(t, it.map(|v| (None, Some(v))), &|i| i.size_hint(), cap, &mut between)
        }
        "into_iter" => {
            let it = m.clone().into_iter();
            do_iter::<KT, _>(t, it.map(|(k, v)| (Some(k), Some(v))), &|i| i.size_hint(), cap, &mut between)
        }
        "ref_into_iter" => {
            let it = (&*m).into_iter();
            do_iter::<KT, _>(t, it.map(|(k, v)| (Some(k), Some(v))), &|i| i.size_hint(), cap, &mut between)
        }
        _ => json!({"error": "flavour"}),
    }
}

fn stats_map<KT: DbMapKeyType + std::fmt::Display>(m: &abyssiniandb::filedb::FileDbMap<KT>, with_filling: bool, only: Option<&str>) -> std::io::Result<Value> {
    // `only`: a single statistics call (one walk over one file) instead of all of them
    let want = |w: &str| only.map(|o| o == w).unwrap_or(true);
    let mut o = Map::new();
    if want("kfree") {
        let kf = m.count_of_free_key_piece()?;
        o.insert("kfree".into(), Value::Array(kf.iter().map(|(s, c)| json!([s, c])).collect()));
    }
    if want("vfree") {
        let vf = m.count_of_free_value_piece()?;
        o.insert("vfree".into(), Value::Array(vf.iter().map(|(s, c)| json!([s, c])).collect()));
    }
    if want("ksize") { o.insert("ksize".into(), parse_pairs(&format!("{}", m.key_piece_size_stats()?))); }
    if want("vsize") { o.insert("vsize".into(), parse_pairs(&format!("{}", m.value_piece_size_stats()?))); }
    if want("klen") { o.insert("klen".into(), parse_pairs(&format!("{}", m.key_length_stats()?))); }
    if want("vlen") { o.insert("vlen".into(), parse_pairs(&format!("{}", m.value_length_stats()?))); }
    if want("kcount") { o.insert("kcount".into(), parse_pairs(&format!("{}", m.keys_count_stats()?))); }
    if (with_filling && only.is_none()) || only == Some("filling") {
        let f = m.htx_filling_rate_per_mill()?;
        o.insert("filling".into(), json!([f.0, f.1]));
    }
    Ok(Value::Object(o))
}

impl Ctx {
    pub fn new(root: PathBuf, script_path: &str) -> Ctx {
        Ctx { root, tables: Tables::default(), dbs: BTreeMap::new(), maps: BTreeMap::new(), max_slots: 2000, script_path: script_path.to_string() }
    }
    fn dir(&self, d: &str) -> PathBuf {
        self.root.join(d)
    }
    fn keyb(&self, op: &Value) -> Result<Vec<u8>, String> {
        let id = op["k"].as_i64().ok_or("k")?;
        self.tables.keys.get(id).cloned().ok_or(format!("unknown key id {id}"))
    }
    fn valb(&self, op: &Value) -> Result<Vec<u8>, String> {
        let id = op["v"].as_i64().ok_or("v")?;
        self.tables.vals.get(id).cloned().ok_or(format!("unknown val id {id}"))
    }

    /// executes one op; Ok(event) or Err(tool error)
    pub fn exec(&mut self, i: usize, op: &Value) -> Result<Value, String> {
        let name = op["op"].as_str().ok_or("op missing")?.to_string();
        let mut ev = Map::new();
        ev.insert("i".into(), json!(i));
        ev.insert("ev".into(), json!(name));
        for f in ["h", "k", "v", "db", "tag", "flavour", "from", "to", "rep", "as"] {
            if let Some(x) = op.get(f) {
                ev.insert(f.to_string(), x.clone());
            }
        }
        if let Some(h) = op.get("h").and_then(|h| h.as_i64()) {
            if let Some(m) = self.maps.get(&h) {
                ev.insert("m".into(), json!(m.mapid));
            }
        }
        let r = catch_unwind(AssertUnwindSafe(|| self.exec_inner(&name, op, &mut ev)));
        match r {
            Ok(Ok(())) => {}
            Ok(Err(e)) => return Err(e),
            Err(p) => {
                ev.insert("outcome".into(), json!("panic"));
                ev.insert("msg".into(), json!(panic_msg(p)));
                // an open that is EXPECTED to be refused (wrong key type in the same session): the refusal may come
                // as a panic; the session goes on afterwards
                if name == "map" && op.get("expect_refusal").and_then(|b| b.as_bool()).unwrap_or(false) {
                    ev.insert("cont".into(), json!(true));
                }
            }
        }
        let mut v = Value::Object(ev);
        denull(&mut v);
        Ok(v)
    }

    fn set_res<T>(&self, ev: &mut Map<String, Value>, r: std::io::Result<T>, f: impl FnOnce(T) -> Value) {
        match r {
            Ok(x) => {
                ev.insert("outcome".into(), json!("ok"));
                let v = f(x);
                if !v.is_null() {
                    ev.insert("res".into(), v);
                }
            }
            Err(e) => {
                ev.insert("outcome".into(), json!("err"));
                ev.insert("err".into(), io_err(&e));
            }
        }
    }

    fn exec_inner(&mut self, name: &str, op: &Value, ev: &mut Map<String, Value>) -> Result<(), String> {
        match name {
            "tables" => {
                let k0 = self.tables.keys.ents.len();
                let v0 = self.tables.vals.ents.len();
                self.tables.load(op)?;
                // the trace carries what the specification needs: lengths, the low 30 bits of the
                // placement hash (decoder's re-implementation) and the bytes of short keys
                let keys: Vec<Value> = self.tables.keys.ents[k0..].iter().map(|(id, b, int)| {
                    let mut o = Map::new();
                    o.insert("id".into(), json!(id));
                    o.insert("len".into(), json!(b.len()));
                    let hh = decode::placement_hash(b);
                    o.insert("h30".into(), json!(hh & ((1 << 30) - 1)));
                    o.insert("h4".into(), json!([hh & 0xffff, (hh >> 16) & 0xffff, (hh >> 32) & 0xffff, (hh >> 48) & 0xffff]));
                    if b.len() <= 40 { o.insert("bytes".into(), json!(b)); }
                    if let Some(x) = int {
                        o.insert("x4".into(), json!([x & 0xffff, (x >> 16) & 0xffff, (x >> 32) & 0xffff, (x >> 48) & 0xffff]));
                        if let Some(enc) = self.tables.keys.encs.get(id) { o.insert("enc".into(), json!(enc)); }
                    }
                    Value::Object(o)
                }).collect();
                let mut vals: Vec<Value> = self.tables.vals.ents[v0..].iter().map(|(id, b, _)| json!({"id": id, "len": b.len()})).collect();
                // declared lossy-decoding images (C14 string variants): lossy_of passes through
                if let Some(vs) = op.get("vals").and_then(|v| v.as_array()) {
                    for v in vs {
                        if let Some(of) = v.get("lossy_of") {
                            for x in vals.iter_mut() {
                                if x["id"] == v["id"] { x["lossy_of"] = of.clone(); }
                            }
                        }
                    }
                }
                ev.insert("keys".into(), Value::Array(keys));
                ev.insert("vals".into(), Value::Array(vals));
                ev.insert("outcome".into(), json!("ok"));
            }
            "open_db" => {
                let id = op["db"].as_i64().ok_or("db")?;
                let d = op["dir"].as_str().ok_or("dir")?.to_string();
                let r = FileDb::open(self.dir(&d));
                match r {
                    Ok(db) => {
                        self.dbs.insert(id, (db, d.clone()));
                        ev.insert("outcome".into(), json!("ok"));
                    }
                    Err(e) => {
                        ev.insert("outcome".into(), json!("err"));
                        ev.insert("err".into(), io_err(&e));
                    }
                }
                ev.insert("dir".into(), json!(d));
            }
            "clone_db" => {
                let id = op["db"].as_i64().ok_or("db")?;
                let from = op["from"].as_i64().ok_or("from")?;
                let (db, d) = self.dbs.get(&from).ok_or("no such db")?;
                let c = (db.clone(), d.clone());
                self.dbs.insert(id, c);
                ev.insert("outcome".into(), json!("ok"));
            }
            "drop_db" => {
                let id = op["db"].as_i64().ok_or("db")?;
                self.dbs.remove(&id);
                ev.insert("outcome".into(), json!("ok"));
            }
            "map" => {
                let h = op["h"].as_i64().ok_or("h")?;
                let dbid = op["db"].as_i64().ok_or("db")?;
                let nm = op["name"].as_str().ok_or("name")?.to_string();
                let kt = op["kt"].as_str().ok_or("kt")?.to_string();
                let params = parse_params(&op["params"]);
                let with_params = !op["params"].is_null();
                let (db, d) = self.dbs.get(&dbid).ok_or("no such db")?;
                let d = d.clone();
                let mapid = format!("{d}/{nm}");
                ev.insert("m".into(), json!(mapid));
                ev.insert("dir".into(), json!(d));
                ev.insert("name".into(), json!(nm));
                ev.insert("kt".into(), json!(kt));
                ev.insert("params".into(), if op["params"].is_object() { op["params"].clone() } else { json!({}) });
                let existed = self.dir(&d).join(format!("{nm}.htx")).exists();
                ev.insert("existed".into(), json!(existed));
                let r: std::io::Result<MapH> = match (kt.as_str(), with_params) {
                    ("string", true) => db.db_map_string_with_params(&nm, params).map(MapH::Str),
                    ("string", false) => db.db_map_string(&nm).map(MapH::Str),
                    ("bytes", true) => db.db_map_bytes_with_params(&nm, params).map(MapH::Bytes),
                    ("bytes", false) => db.db_map_bytes(&nm).map(MapH::Bytes),
                    ("i64", true) => db.db_map_i64_with_params(&nm, params).map(MapH::I64),
                    ("i64", false) => db.db_map_i64(&nm).map(MapH::I64),
                    ("u64", true) => db.db_map_u64_with_params(&nm, params).map(MapH::U64),
                    ("u64", false) => db.db_map_u64(&nm).map(MapH::U64),
                    ("vu64", true) => db.db_map_vu64_with_params(&nm, params).map(MapH::Vu64),
                    ("vu64", false) => db.db_map_vu64(&nm).map(MapH::Vu64),
                    _ => return Err(format!("unknown kt {kt}")),
                };
                match r {
                    Ok(mh) => {
                        let len = with_map!(&mh, m => m.len());
                        #[cfg(feature = "hooks")]
                        ev.insert("inst".into(), json!(format!("{:x}", with_map!(&mh, m => m.verif_instance_id()))));
                        self.maps.insert(h, MapEnt { h: mh, mapid, dir: d, name: nm, kt });
                        ev.insert("outcome".into(), json!("ok"));
                        if let Ok(l) = len {
                            ev.insert("len".into(), json!(l));
                        }
                    }
                    Err(e) => {
                        ev.insert("outcome".into(), json!("err"));
                        ev.insert("err".into(), io_err(&e));
                    }
                }
            }
            "clone_h" => {
                let h = op["h"].as_i64().ok_or("h")?;
                let from = op["from"].as_i64().ok_or("from")?;
                let e = self.maps.get(&from).ok_or("no such handle")?;
                let n = MapEnt { h: e.h.clone_h(), mapid: e.mapid.clone(), dir: e.dir.clone(), name: e.name.clone(), kt: e.kt.clone() };
                ev.insert("m".into(), json!(n.mapid));
                #[cfg(feature = "hooks")]
                ev.insert("inst".into(), json!(format!("{:x}", with_map!(&n.h, m => m.verif_instance_id()))));
                self.maps.insert(h, n);
                ev.insert("outcome".into(), json!("ok"));
            }
            "drop_h" => {
                let h = op["h"].as_i64().ok_or("h")?;
                self.maps.remove(&h);
                ev.insert("outcome".into(), json!("ok"));
            }
            "drop_all" => {
                self.maps.clear();
                self.dbs.clear();
                ev.insert("outcome".into(), json!("ok"));
            }
            "put" | "get" | "del" | "includes" | "put_string" | "get_string" | "del_string" => {
                let h = op["h"].as_i64().ok_or("h")?;
                let kb = self.keyb(op)?;
                let via_int = op.get("via").and_then(|v| v.as_str()) == Some("int");
                let kint = self.tables.keys.int_of(op["k"].as_i64().unwrap());
                let vb = if name.starts_with("put") { Some(self.valb(op)?) } else { None };
                let t = &self.tables;
                let e = self.maps.get_mut(&h).ok_or("no such handle")?;
                if via_int {
                    let x = kint.ok_or("key has no int")?;
                    let xi = x as i64;
                    macro_rules! int_ops { ($m:expr, $x:expr) => { match name {
                        "put" => { let r = $m.put($x, vb.as_ref().unwrap()); (r.map(|_| Value::Null)) }
                        "get" => $m.get($x).map(|v| json!(val_id(t, &v))),
                        "del" => $m.delete($x).map(|v| json!(val_id(t, &v))),
                        "includes" => $m.includes_key($x).map(|b| json!(b)),
                        _ => return Err("string variants need byte keys".into()),
                    } } }
                    let r = match &mut e.h {
                        MapH::Str(m) => int_ops!(m, &x),
                        MapH::Bytes(m) => int_ops!(m, &x),
                        MapH::U64(m) => int_ops!(m, &x),
                        MapH::Vu64(m) => int_ops!(m, &x),
                        MapH::I64(m) => int_ops!(m, &xi),
                    };
                    ev.insert("via".into(), json!("int"));
                    match r {
                        Ok(v) => { ev.insert("outcome".into(), json!("ok")); if !v.is_null() { ev.insert("res".into(), v); } }
                        Err(e) => { ev.insert("outcome".into(), json!("err")); ev.insert("err".into(), io_err(&e)); }
                    }
                } else {
                    let r: std::io::Result<Value> = with_map!(&mut e.h, m => match name {
                        "put" => m.put::<[u8]>(&kb[..], vb.as_ref().unwrap()).map(|_| Value::Null),
                        "put_string" => {
                            let s = String::from_utf8_lossy(vb.as_ref().unwrap()).to_string();
                            m.put_string::<[u8]>(&kb[..], &s).map(|_| Value::Null)
                        }
                        "get" => m.get::<[u8]>(&kb[..]).map(|v| json!(val_id(t, &v))),
                        "get_string" => m.get_string::<[u8]>(&kb[..]).map(|v| json!(val_id(t, &v.map(|s| s.into_bytes())))),
                        "del" => m.delete::<[u8]>(&kb[..]).map(|v| json!(val_id(t, &v))),
                        "del_string" => m.delete_string::<[u8]>(&kb[..]).map(|v| json!(val_id(t, &v.map(|s| s.into_bytes())))),
                        _ => m.includes_key::<[u8]>(&kb[..]).map(|b| json!(b)),
                    });
                    match r {
                        Ok(v) => { ev.insert("outcome".into(), json!("ok")); if !v.is_null() { ev.insert("res".into(), v); } }
                        Err(e) => { ev.insert("outcome".into(), json!("err")); ev.insert("err".into(), io_err(&e)); }
                    }
                }
                let dirty = with_map!(&e.h, m => m.is_dirty());
                ev.insert("dirty".into(), json!(dirty));
            }
            "len" | "is_empty" | "flush" | "sync_all" | "sync_data" | "read_fill_buffer" => {
                let h = op["h"].as_i64().ok_or("h")?;
                let e = self.maps.get_mut(&h).ok_or("no such handle")?;
                let _ = io_take();
                let r: std::io::Result<Value> = with_map!(&mut e.h, m => match name {
                    "len" => m.len().map(|l| json!(l)),
                    "is_empty" => m.is_empty().map(|b| json!(b)),
                    "flush" => m.flush().map(|_| Value::Null),
                    "sync_all" => m.sync_all().map(|_| Value::Null),
                    "sync_data" => m.sync_data().map(|_| Value::Null),
                    _ => m.read_fill_buffer().map(|_| Value::Null),
                });
                let io = io_take();
                if name != "len" && name != "is_empty" {
                    ev.insert("io".into(), Value::Array(io.iter().map(|(f, o)| json!([f, o])).collect()));
                }
                match r {
                    Ok(v) => { ev.insert("outcome".into(), json!("ok")); if !v.is_null() { ev.insert("res".into(), v); } }
                    Err(e) => { ev.insert("outcome".into(), json!("err")); ev.insert("err".into(), io_err(&e)); }
                }
                let dirty = with_map!(&e.h, m => m.is_dirty());
                ev.insert("dirty".into(), json!(dirty));
                if name == "sync_all" || name == "sync_data" {
                    // what the three files hold right after the call (page cache): a file whose bytes did not change
                    // since its last OS sync needs no further one
                    let dg = decode::digest(&self.root.join(&e.dir), &e.name);
                    ev.insert("fdg".into(), Value::Array(dg.as_array().unwrap().iter().map(|x| json!(format!("{}:{}", x["len"], x["fnv"].as_str().unwrap_or("")))).collect()));
                }
            }
            "db_sync_all" | "db_sync_data" => {
                let id = op["db"].as_i64().ok_or("db")?;
                let (db, d) = self.dbs.get(&id).ok_or("no such db")?;
                let _ = io_take();
                let r = if name == "db_sync_all" { db.sync_all() } else { db.sync_data() };
                let io = io_take();
                ev.insert("io".into(), Value::Array(io.iter().map(|(f, o)| json!([f, o])).collect()));
                ev.insert("dir".into(), json!(d));
                let mut fdgs = Map::new();
                for me in self.maps.values() {
                    if &me.dir == d && !fdgs.contains_key(&me.mapid) {
                        let dg = decode::digest(&self.root.join(&me.dir), &me.name);
                        fdgs.insert(me.mapid.clone(), Value::Array(dg.as_array().unwrap().iter().map(|x| json!(format!("{}:{}", x["len"], x["fnv"].as_str().unwrap_or("")))).collect()));
                    }
                }
                ev.insert("fdgs".into(), Value::Object(fdgs));
                self.set_res(ev, r, |_| Value::Null);
            }
            "iter" => {
                let h = op["h"].as_i64().ok_or("h")?;
                let fl = op["flavour"].as_str().unwrap_or("iter").to_string();
                let t = &self.tables;
                let inter: Vec<String> = op.get("interleave").and_then(|a| a.as_array()).map(|a| a.iter().filter_map(|x| x.as_str().map(|s| s.to_string())).collect()).unwrap_or_default();
                let mut probe: Vec<Vec<u8>> = vec![];
                if let Some(ks) = op.get("probe").and_then(|a| a.as_array()) {
                    for k in ks { if let Some(b) = t.keys.get(k.as_i64().unwrap_or(0)) { probe.push(b.clone()); } }
                }
                if !inter.is_empty() { ev.insert("interleave".into(), json!(inter)); }
                let e = self.maps.get_mut(&h).ok_or("no such handle")?;
                let v = with_map!(&mut e.h, m => iter_map(t, m, &fl, &inter, &probe));
                ev.insert("outcome".into(), json!("ok"));
                for (k, x) in v.as_object().unwrap() {
                    ev.insert(k.clone(), x.clone());
                }
            }
            "iter_abandon" => {
                // a traversal that is given up after a few steps (the iterator is dropped half way)
                let h = op["h"].as_i64().ok_or("h")?;
                let n = op.get("steps").and_then(|x| x.as_u64()).unwrap_or(1) as usize;
                let fl = op["flavour"].as_str().unwrap_or("iter").to_string();
                let e = self.maps.get_mut(&h).ok_or("no such handle")?;
                let taken = with_map!(&mut e.h, m => match fl.as_str() {
                    "keys" => m.keys().take(n).count(),
                    "values" => m.values().take(n).count(),
                    "iter_mut" => m.iter_mut().take(n).count(),
                    "into_iter" => m.clone().into_iter().take(n).count(),
                    _ => m.iter().take(n).count(),
                });
                ev.insert("taken".into(), json!(taken));
                ev.insert("outcome".into(), json!("ok"));
            }
            "stats" => {
                let h = op["h"].as_i64().ok_or("h")?;
                let filling = op.get("filling").and_then(|f| f.as_bool()).unwrap_or(true);
                let e = self.maps.get(&h).ok_or("no such handle")?;
                let only = op.get("only").and_then(|o| o.as_str()).map(|x| x.to_string());
                if let Some(o) = &only { ev.insert("only".into(), json!(o)); }
                let r = with_map!(&e.h, m => stats_map(m, filling, only.as_deref()));
                self.set_res(ev, r, |v| v);
            }
            "bulk_get" | "bulk_del" | "bulk_put" | "bulk_put_string" | "put_from_iter" | "bulk_get_string" | "bulk_del_string" => {
                let h = op["h"].as_i64().ok_or("h")?;
                let t = &self.tables;
                let mut kbs: Vec<Vec<u8>> = vec![];
                for k in op["ks"].as_array().ok_or("ks")? {
                    kbs.push(t.keys.get(k.as_i64().unwrap()).cloned().ok_or("unknown key id")?);
                }
                let mut vbs: Vec<Vec<u8>> = vec![];
                if let Some(vs) = op.get("vs").and_then(|v| v.as_array()) {
                    for v in vs {
                        vbs.push(t.vals.get(v.as_i64().unwrap()).cloned().ok_or("unknown val id")?);
                    }
                }
                ev.insert("ks".into(), op["ks"].clone());
                if let Some(vs) = op.get("vs") { ev.insert("vs".into(), vs.clone()); }
                // typed maps through their integer key type (Q = u64 / i64), not through the encoded bytes
                if op.get("via").and_then(|v| v.as_str()) == Some("int") {
                    let mut ints: Vec<u64> = vec![];
                    for k in op["ks"].as_array().ok_or("ks")? {
                        ints.push(t.keys.int_of(k.as_i64().unwrap()).ok_or("key has no int")?);
                    }
                    let sints: Vec<i64> = ints.iter().map(|x| *x as i64).collect();
                    ev.insert("via".into(), json!("int"));
                    let e = self.maps.get_mut(&h).ok_or("no such handle")?;
                    macro_rules! int_bulk { ($m:expr, $xs:expr) => { {
                        let refs: Vec<_> = $xs.iter().collect();
                        match name {
                            "bulk_get" => $m.bulk_get(&refs).map(|v| Value::Array(v.iter().map(|x| json!(val_id(t, x))).collect())),
                            "bulk_get_string" => $m.bulk_get_string(&refs).map(|v| Value::Array(v.into_iter().map(|x| json!(val_id(t, &x.map(|s| s.into_bytes())))).collect())),
                            "bulk_del" => $m.bulk_delete(&refs).map(|v| Value::Array(v.iter().map(|x| json!(val_id(t, x))).collect())),
                            "bulk_del_string" => $m.bulk_delete_string(&refs).map(|v| Value::Array(v.into_iter().map(|x| json!(val_id(t, &x.map(|s| s.into_bytes())))).collect())),
                            "bulk_put" => {
                                let pairs: Vec<_> = refs.iter().zip(vbs.iter()).map(|(k, v)| (*k, &v[..])).collect();
                                $m.bulk_put(&pairs).map(|_| Value::Null)
                            }
                            "bulk_put_string" => {
                                let pairs: Vec<_> = refs.iter().zip(vbs.iter()).map(|(k, v)| (*k, String::from_utf8_lossy(v).to_string())).collect();
                                $m.bulk_put_string(&pairs).map(|_| Value::Null)
                            }
                            _ => {
                                let pairs: Vec<_> = $xs.iter().zip(vbs.iter()).map(|(k, v)| (From::from(*k), v.clone())).collect();
                                $m.put_from_iter(pairs.into_iter()).map(|_| Value::Null)
                            }
                        }
                    } } }
                    let r: std::io::Result<Value> = match &mut e.h {
                        MapH::U64(m) => int_bulk!(m, ints),
                        MapH::Vu64(m) => int_bulk!(m, ints),
                        MapH::I64(m) => int_bulk!(m, sints),
                        // string / bytes maps addressed by integers (the key is the integer's 8 big-endian bytes)
                        MapH::Str(m) => int_bulk!(m, ints),
                        MapH::Bytes(m) => int_bulk!(m, ints),
                    };
                    self.set_res(ev, r, |v| v);
                    return Ok(());
                }
                let e = self.maps.get_mut(&h).ok_or("no such handle")?;
                let krefs: Vec<&[u8]> = kbs.iter().map(|k| &k[..]).collect();
                let r: std::io::Result<Value> = with_map!(&mut e.h, m => match name {
                    "bulk_get" => m.bulk_get::<[u8]>(&krefs).map(|v| Value::Array(v.iter().map(|x| json!(val_id(t, x))).collect())),
                    "bulk_get_string" => m.bulk_get_string::<[u8]>(&krefs).map(|v| Value::Array(v.into_iter().map(|x| json!(val_id(t, &x.map(|s| s.into_bytes())))).collect())),
                    "bulk_del" => m.bulk_delete::<[u8]>(&krefs).map(|v| Value::Array(v.iter().map(|x| json!(val_id(t, x))).collect())),
                    "bulk_del_string" => m.bulk_delete_string::<[u8]>(&krefs).map(|v| Value::Array(v.into_iter().map(|x| json!(val_id(t, &x.map(|s| s.into_bytes())))).collect())),
                    "bulk_put" => {
                        let pairs: Vec<(&[u8], &[u8])> = krefs.iter().zip(vbs.iter()).map(|(k, v)| (*k, &v[..])).collect();
                        m.bulk_put::<[u8]>(&pairs).map(|_| Value::Null)
                    }
                    "bulk_put_string" => {
                        let pairs: Vec<(&[u8], String)> = krefs.iter().zip(vbs.iter()).map(|(k, v)| (*k, String::from_utf8_lossy(v).to_string())).collect();
                        m.bulk_put_string::<[u8]>(&pairs).map(|_| Value::Null)
                    }
                    _ => {
                        let pairs: Vec<_> = kbs.iter().zip(vbs.iter()).map(|(k, v)| (From::from(&k[..]), v.clone())).collect();
                        m.put_from_iter(pairs.into_iter()).map(|_| Value::Null)
                    }
                });
                self.set_res(ev, r, |v| v);
            }
            "put_from_iter_self" => {
                // the "rewrite everything" idiom: the map's own iterator (or the iterator of another handle of
                // the same map, "src") feeds put_from_iter; the values are written back unchanged, so the
                // contents must stay what they were
                let h = op["h"].as_i64().ok_or("h")?;
                let src = op.get("src").and_then(|x| x.as_i64()).unwrap_or(h);
                let flavour = op.get("flavour").and_then(|f| f.as_str()).unwrap_or("iter").to_string();
                ev.insert("src".into(), json!(src));
                let srch = self.maps.get(&src).ok_or("no such handle")?.h.clone_h();
                let e = self.maps.get_mut(&h).ok_or("no such handle")?;
                macro_rules! selfput { ($m:expr, $s:expr) => { match flavour.as_str() {
                    "iter_mut" => { let mut s2 = $s; $m.put_from_iter(s2.iter_mut()) }
                    "into_iter" => $m.put_from_iter($s.into_iter()),
                    _ => $m.put_from_iter($s.iter()),
                } } }
                let r: std::io::Result<()> = match (&mut e.h, srch) {
                    (MapH::Str(m), MapH::Str(s)) => selfput!(m, s),
                    (MapH::Bytes(m), MapH::Bytes(s)) => selfput!(m, s),
                    (MapH::I64(m), MapH::I64(s)) => selfput!(m, s),
                    (MapH::U64(m), MapH::U64(s)) => selfput!(m, s),
                    (MapH::Vu64(m), MapH::Vu64(s)) => selfput!(m, s),
                    _ => return Err("put_from_iter_self: handles of different key types".into()),
                };
                self.set_res(ev, r.map(|_| Value::Null), |v| v);
            }
            "dump" => {
                // contents through the API: len, get of the listed key ids (default: all table keys)
                let h = op["h"].as_i64().ok_or("h")?;
                let t = &self.tables;
                let ids: Vec<i64> = match op.get("ks").and_then(|k| k.as_array()) {
                    Some(a) => a.iter().map(|x| x.as_i64().unwrap()).collect(),
                    None => t.keys.ents.iter().map(|e| e.0).collect(),
                };
                let e = self.maps.get_mut(&h).ok_or("no such handle")?;
                let mut content = vec![];
                let mut outcome = "ok";
                let len = with_map!(&mut e.h, m => m.len());
                for id in ids {
                    let kb = t.keys.get(id).ok_or("unknown key id")?;
                    let r = with_map!(&mut e.h, m => m.get::<[u8]>(&kb[..]));
                    match r {
                        Ok(v) => { let vid = val_id(t, &v); if vid != 0 { content.push(json!([id, vid])); } }
                        Err(_) => { outcome = "err"; }
                    }
                }
                ev.insert("outcome".into(), json!(outcome));
                ev.insert("content".into(), Value::Array(content));
                ev.insert("len".into(), json!(len.unwrap_or(u64::MAX >> 34)));
            }
            "decode" => {
                // state of the files as they are on disk now (flush first when asked to)
                let d = op["dir"].as_str().ok_or("dir")?.to_string();
                let nm = op["name"].as_str().ok_or("name")?.to_string();
                if let Some(h) = op.get("flush_h").and_then(|h| h.as_i64()) {
                    let e = self.maps.get_mut(&h).ok_or("no such handle")?;
                    let r = with_map!(&mut e.h, m => m.flush());
                    if let Err(e) = r { ev.insert("flush_err".into(), io_err(&e)); }
                }
                ev.insert("m".into(), json!(format!("{d}/{nm}")));
                let st = decode::decode_dir(&self.dir(&d), &nm, &self.tables, self.max_slots);
                let big = st.get("truncated").and_then(|t| t.as_bool()).unwrap_or(false);
                if big {
                    // image above the TLC cap: judged by the native monitor only
                    let full = decode::decode_dir(&self.dir(&d), &nm, &self.tables, usize::MAX);
                    let (fails, content) = decode::monitor(&full, &self.tables);
                    ev.insert("native".into(), json!({"fails": fails, "content": content, "n": full["n"], "cnt": full["cnt"],
                        "nks": full["ks"].as_array().map(|a| a.len()), "nvs": full["vs"].as_array().map(|a| a.len())}));
                } else {
                    if op.get("native").and_then(|b| b.as_bool()).unwrap_or(false) && st.get("error").is_none() {
                        let (fails, content) = decode::monitor(&st, &self.tables);
                        ev.insert("native".into(), json!({"fails": fails, "content": content}));
                    }
                    // the raw bytes of a small image go with it: the TLA+ format module (AbyFormat) decodes
                    // them itself and must arrive at the same raw interpretation as the decoder above
                    if op.get("raw").and_then(|b| b.as_bool()).unwrap_or(false) && st.get("error").is_none() {
                        if let Ok(f) = decode::read_files(&self.dir(&d), &nm) {
                            if f.htx.len() + f.key.len() + f.val.len() <= 12000 {
                                ev.insert("raw".into(), json!({"htx": f.htx, "key": f.key, "val": f.val}));
                            }
                        }
                    }
                    ev.insert("st".into(), st);
                }
                ev.insert("outcome".into(), json!("ok"));
            }
            "digest" => {
                let d = op["dir"].as_str().ok_or("dir")?.to_string();
                let nm = op["name"].as_str().ok_or("name")?.to_string();
                ev.insert("m".into(), json!(format!("{d}/{nm}")));
                ev.insert("dg".into(), decode::digest(&self.dir(&d), &nm));
                if let Some(a) = op.get("always") { ev.insert("always".into(), a.clone()); }
                ev.insert("outcome".into(), json!("ok"));
            }
            "copy_dir" => {
                let from = self.dir(op["from"].as_str().ok_or("from")?);
                let to = self.dir(op["to"].as_str().ok_or("to")?);
                let _ = std::fs::remove_dir_all(&to);
                std::fs::create_dir_all(&to).map_err(|e| format!("{e}"))?;
                let (fs, ts) = (op["from"].as_str().unwrap().to_string(), op["to"].as_str().unwrap().to_string());
                let mut maps = vec![];
                if let Ok(rd) = std::fs::read_dir(&from) {
                    for e in rd.flatten() {
                        if e.path().is_file() {
                            std::fs::copy(e.path(), to.join(e.file_name())).map_err(|e| format!("copy: {e}"))?;
                            let fname = e.file_name().to_string_lossy().to_string();
                            if let Some(stem) = fname.strip_suffix(".htx") {
                                maps.push(json!([format!("{fs}/{stem}"), format!("{ts}/{stem}")]));
                            }
                        }
                    }
                }
                ev.insert("maps".into(), Value::Array(maps));
                ev.insert("outcome".into(), json!("ok"));
            }
            "install" => {
                // copy a committed golden image into the work directory
                let src = PathBuf::from(op["src"].as_str().ok_or("src")?);
                let to = self.dir(op["dir"].as_str().ok_or("dir")?);
                let _ = std::fs::remove_dir_all(&to);
                std::fs::create_dir_all(&to).map_err(|e| format!("{e}"))?;
                for e in std::fs::read_dir(&src).map_err(|e| format!("install {src:?}: {e}"))?.flatten() {
                    let f = e.file_name().to_string_lossy().to_string();
                    if f.ends_with(".htx") || f.ends_with(".key") || f.ends_with(".val") {
                        // "rename": the map gets another name in the work directory (m.htx -> <rename>.htx)
                        let dst = match op.get("rename").and_then(|r| r.as_str()) {
                            Some(r) => format!("{}{}", r, &f[f.len() - 4..]),
                            None => f.clone(),
                        };
                        std::fs::copy(e.path(), to.join(&dst)).map_err(|e| format!("install copy: {e}"))?;
                    }
                }
                ev.insert("outcome".into(), json!("ok"));
            }
            "rm_dir" => {
                let d = self.dir(op["dir"].as_str().ok_or("dir")?);
                let _ = std::fs::remove_dir_all(&d);
                ev.insert("outcome".into(), json!("ok"));
            }
            "child_dump" => {
                // open <dir>/<name> as <kt> in a freshly spawned process and dump it
                let d = op["dir"].as_str().ok_or("dir")?.to_string();
                let nm = op["name"].as_str().ok_or("name")?.to_string();
                let kt = op["kt"].as_str().ok_or("kt")?.to_string();
                ev.insert("m".into(), json!(format!("{d}/{nm}")));
                ev.insert("dir".into(), json!(d));
                ev.insert("name".into(), json!(nm));
                ev.insert("kt".into(), json!(kt));
                let params = serde_json::to_string(&op["params"]).unwrap();
                let ks = serde_json::to_string(op.get("ks").unwrap_or(&Value::Null)).unwrap();
                let exe = std::env::current_exe().map_err(|e| format!("{e}"))?;
                let out = crate::parent::run_with_timeout(
                    std::process::Command::new(exe).args(["dumpdir", self.root.to_str().unwrap(), &self.script_path, &d, &nm, &kt, &params, &ks]),
                    op.get("timeout").and_then(|t| t.as_u64()).unwrap_or(30),
                );
                match out {
                    Some(s) => {
                        let line = s.lines().rev().find(|l| l.starts_with('{')).unwrap_or("{}");
                        let v: Value = serde_json::from_str(line).unwrap_or(json!({"open": "toolerr"}));
                        for (k, x) in v.as_object().unwrap() {
                            ev.insert(k.clone(), x.clone());
                        }
                        ev.insert("outcome".into(), json!("ok"));
                    }
                    None => {
                        ev.insert("outcome".into(), json!("ok"));
                        ev.insert("open".into(), json!("hang"));
                    }
                }
            }
            "rlimit_fsize" => {
                let lim = match op.get("bytes").and_then(|b| b.as_u64()) {
                    Some(b) => b as libc::rlim_t,
                    None => libc::RLIM_INFINITY,
                };
                unsafe {
                    libc::signal(libc::SIGXFSZ, libc::SIG_IGN);
                    let mut rl = libc::rlimit { rlim_cur: 0, rlim_max: 0 };
                    libc::getrlimit(libc::RLIMIT_FSIZE, &mut rl);
                    rl.rlim_cur = if lim == libc::RLIM_INFINITY { rl.rlim_max } else { lim };
                    if libc::setrlimit(libc::RLIMIT_FSIZE, &rl) != 0 {
                        return Err("setrlimit failed".into());
                    }
                }
                ev.insert("bytes".into(), json!(op.get("bytes").and_then(|b| b.as_i64()).unwrap_or(-1)));
                ev.insert("outcome".into(), json!("ok"));
            }
            "phys" => {
                // what is on disk right now (lengths), while handles may be open
                let d = op["dir"].as_str().ok_or("dir")?.to_string();
                let nm = op["name"].as_str().ok_or("name")?.to_string();
                ev.insert("m".into(), json!(format!("{d}/{nm}")));
                ev.insert("dg".into(), decode::digest(&self.dir(&d), &nm));
                if let Some(a) = op.get("always") { ev.insert("always".into(), a.clone()); }
                ev.insert("outcome".into(), json!("ok"));
            }
            "mutate_file" => {
                // overwrite bytes of a closed file: {"file":"d/m.key","at":8,"hex":".."} or truncate / replace from other file
                let f = self.dir(op["file"].as_str().ok_or("file")?);
                if let Some(src) = op.get("copy_from").and_then(|s| s.as_str()) {
                    std::fs::copy(self.dir(src), &f).map_err(|e| format!("mutate copy: {e}"))?;
                } else if let Some(hexs) = op.get("hex").and_then(|s| s.as_str()) {
                    let mut b = std::fs::read(&f).map_err(|e| format!("mutate read: {e}"))?;
                    let at = op["at"].as_u64().unwrap_or(0) as usize;
                    let nb = crate::tables::unhex(hexs);
                    if b.len() < at + nb.len() { b.resize(at + nb.len(), 0); }
                    b[at..at + nb.len()].copy_from_slice(&nb);
                    std::fs::write(&f, b).map_err(|e| format!("mutate write: {e}"))?;
                } else if let Some(content) = op.get("content_hex").and_then(|s| s.as_str()) {
                    std::fs::write(&f, crate::tables::unhex(content)).map_err(|e| format!("mutate write: {e}"))?;
                } else if op.get("remove").and_then(|b| b.as_bool()).unwrap_or(false) {
                    let _ = std::fs::remove_file(&f);
                } else if let Some(t) = op.get("truncate").and_then(|s| s.as_u64()) {
                    let mut b = std::fs::read(&f).map_err(|e| format!("mutate read: {e}"))?;
                    b.truncate(t as usize);
                    std::fs::write(&f, b).map_err(|e| format!("mutate write: {e}"))?;
                }
                ev.insert("file".into(), op["file"].clone());
                ev.insert("map".into(), op.get("map").cloned().unwrap_or(json!("-")));
                ev.insert("foreign".into(), op.get("foreign").cloned().unwrap_or(json!(true)));
                ev.insert("outcome".into(), json!("ok"));
            }
            "conv" => {
                // integer <-> key conversions of the typed key types (C10)
                let x: u64 = op["u64"].as_str().ok_or("u64")?.parse().map_err(|_| "u64 parse")?;
                ev.insert("u64".into(), op["u64"].clone());
                let kt = op["kt"].as_str().ok_or("kt")?;
                ev.insert("kt".into(), json!(kt));
                use abyssiniandb::{DbI64, DbU64, DbVu64, DbBytes, DbString};
                let (byv, byr, back): (Vec<u8>, Vec<u8>, u64) = match kt {
                    "u64" => { let a = DbU64::from(x); let b = DbU64::from(&x); (a.as_bytes().to_vec(), b.as_bytes().to_vec(), u64::from(&a)) }
                    "i64" => { let xi = x as i64; let a = DbI64::from(xi); let b = DbI64::from(&xi); (a.as_bytes().to_vec(), b.as_bytes().to_vec(), i64::from(&a) as u64) }
                    "vu64" => { let a = DbVu64::from(x); let b = DbVu64::from(&x); (a.as_bytes().to_vec(), b.as_bytes().to_vec(), u64::from(&a)) }
                    "bytes" => { let a = DbBytes::from(x); let b = DbBytes::from(&x); (a.as_bytes().to_vec(), b.as_bytes().to_vec(), x) }
                    "string" => { let a = DbString::from(x); let b = DbString::from(&x); (a.as_bytes().to_vec(), b.as_bytes().to_vec(), x) }
                    _ => return Err("conv kt".into()),
                };
                let limbs = |x: u64| json!([x & 0xffff, (x >> 16) & 0xffff, (x >> 32) & 0xffff, (x >> 48) & 0xffff]);
                ev.insert("byv".into(), json!(byv));
                ev.insert("byr".into(), json!(byr));
                ev.insert("back".into(), json!(format!("{back}")));
                ev.insert("x4".into(), limbs(x));
                ev.insert("back4".into(), limbs(back));
                ev.insert("outcome".into(), json!("ok"));
            }
            "hash" => {
                // the crate's own placement hash of a table key (C12)
                use abyssiniandb::{DbBytes, HashValue};
                let kb = self.keyb(op)?;
                let h = DbBytes::from(&kb[..]).hash_value();
                ev.insert("h30".into(), json!(h & ((1 << 30) - 1)));
                ev.insert("hash".into(), json!(format!("{h:016x}")));
                ev.insert("outcome".into(), json!("ok"));
            }
            #[cfg(feature = "hooks")]
            "probe_val" => {
                // the crate's own slot decision for every value length in [from, to], run-length encoded
                let from = op["from"].as_u64().ok_or("from")? as usize;
                let to = op["to"].as_u64().ok_or("to")? as usize;
                let mut runs: Vec<(usize, usize, u32, u32)> = vec![]; // (lo, hi, slot, enc) built downwards
                abyssiniandb::filedb::verif::value_slot_sweep(to, from, &mut |len, enc, _need, slot| {
                    match runs.last_mut() {
                        Some(r) if r.2 == slot && r.3 == enc && r.0 == len + 1 => r.0 = len,
                        _ => runs.push((len, len, slot, enc)),
                    }
                });
                runs.reverse();
                ev.insert("from".into(), json!(from));
                ev.insert("to".into(), json!(to));
                ev.insert("runs".into(), Value::Array(runs.iter().map(|r| json!([r.0, r.1, r.2, r.3])).collect()));
                ev.insert("outcome".into(), json!("ok"));
            }
            #[cfg(feature = "hooks")]
            "probe_key" => {
                let from = op["from"].as_u64().ok_or("from")? as usize;
                let to = op["to"].as_u64().ok_or("to")? as usize;
                let voff = op["voff"].as_u64().ok_or("voff")?;
                let nxt = op["nxt"].as_u64().ok_or("nxt")?;
                let mut runs: Vec<(usize, usize, u32, u32)> = vec![];
                for len in from..=to {
                    let (enc, _need, slot) = abyssiniandb::filedb::verif::key_slot(len, voff, nxt);
                    match runs.last_mut() {
                        Some(r) if r.2 == slot && r.3 == enc && r.1 + 1 == len => r.1 = len,
                        _ => runs.push((len, len, slot, enc)),
                    }
                }
                ev.insert("from".into(), json!(from));
                ev.insert("to".into(), json!(to));
                ev.insert("voff".into(), json!(voff));
                ev.insert("nxt".into(), json!(nxt));
                ev.insert("runs".into(), Value::Array(runs.iter().map(|r| json!([r.0, r.1, r.2, r.3])).collect()));
                ev.insert("outcome".into(), json!("ok"));
            }
            "mark" | "reset" | "new_process" | "kill_here" | "note" | "load" => {
                for (k, x) in op.as_object().unwrap() {
                    if k != "op" { ev.insert(k.clone(), x.clone()); }
                }
                ev.insert("outcome".into(), json!("ok"));
            }
            _ => return Err(format!("unknown op {name}")),
        }
        Ok(())
    }
}

/// child mode `dumpdir`: open <root>/<dir>/<name> as <kt> and print one JSON line
pub fn dumpdir(root: &str, script: &str, d: &str, nm: &str, kt: &str, params: &str, ks: &str) {
    std::panic::set_hook(Box::new(|_| {}));
    let mut ctx = Ctx::new(PathBuf::from(root), script);
    let text = std::fs::read_to_string(script).expect("script");
    for l in text.lines() {
        if let Ok(v) = serde_json::from_str::<Value>(l) {
            if v["op"] == "tables" {
                ctx.tables.load(&v).expect("tables");
            }
        }
    }
    let params: Value = serde_json::from_str(params).unwrap_or(Value::Null);
    let ops = vec![
        json!({"op": "open_db", "db": 0, "dir": d}),
        json!({"op": "map", "h": 0, "db": 0, "name": nm, "kt": kt, "params": params}),
    ];
    let mut out = Map::new();
    for (i, op) in ops.iter().enumerate() {
        let ev = ctx.exec(i, op).expect("exec");
        if ev["outcome"] != "ok" {
            out.insert("open".into(), ev["outcome"].clone());
            out.insert("msg".into(), ev.get("msg").cloned().unwrap_or(Value::Null));
            println!("{}", Value::Object(out));
            return;
        }
    }
    out.insert("open".into(), json!("ok"));
    let ks: Value = serde_json::from_str(ks).unwrap_or(Value::Null);
    let dump_op = if ks.is_array() { json!({"op": "dump", "h": 0, "ks": ks}) } else { json!({"op": "dump", "h": 0}) };
    let dump = ctx.exec(2, &dump_op).expect("dump");
    out.insert("dump_outcome".into(), dump["outcome"].clone());
    out.insert("content".into(), dump.get("content").cloned().unwrap_or(json!([])));
    out.insert("len".into(), dump.get("len").cloned().unwrap_or(json!(-1)));
    let it = ctx.exec(3, &json!({"op": "iter", "h": 0, "flavour": "iter"})).expect("iter");
    out.insert("iter_outcome".into(), it["outcome"].clone());
    out.insert("items".into(), it.get("items").cloned().unwrap_or(json!([])));
    println!("{}", Value::Object(out));
    let _ = std::io::stdout().flush();
}

pub fn root_of(p: &Path) -> PathBuf {
    p.to_path_buf()
}
