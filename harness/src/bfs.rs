//! Breadth-first exploration of the REAL on-disk state graph over a finite alphabet of operations.
//! A state is the byte content of the three files of a closed map.  To expand a state the files are
//! restored into a scratch directory, the map is opened, one operation applied, everything dropped,
//! and the files read back and decoded.  Every edge becomes a trace segment
//!     bfs_load (decoded source state)  ->  the operation (with its result)  ->  decode (target state)
//! which AbyTrace validates against the design layer and the property conjuncts.
use crate::decode;
use crate::exec::Ctx;
use crate::tables::fnv64;
use serde_json::{json, Value};
use std::collections::{HashMap, VecDeque};
use std::io::Write;
use std::path::PathBuf;

type Image = [Vec<u8>; 3];

fn read_image(dir: &std::path::Path, name: &str) -> Option<Image> {
    let f = decode::read_files(dir, name).ok()?;
    Some([f.htx, f.key, f.val])
}
fn write_image(dir: &std::path::Path, name: &str, im: &Image) {
    let _ = std::fs::remove_dir_all(dir);
    std::fs::create_dir_all(dir).expect("mkdir");
    for (ext, b) in ["htx", "key", "val"].iter().zip(im.iter()) {
        std::fs::write(dir.join(format!("{name}.{ext}")), b).expect("write");
    }
}
fn image_key(im: &Image) -> (u64, u64, usize) {
    let mut all = Vec::with_capacity(im[0].len() + im[1].len() + im[2].len() + 16);
    for b in im.iter() {
        all.extend_from_slice(&(b.len() as u64).to_le_bytes());
        all.extend_from_slice(b);
    }
    let h1 = fnv64(&all);
    all.reverse();
    (h1, fnv64(&all), all.len())
}

pub fn run(root: &str, spec_path: &str, out_prefix: &str, max_states: usize, per_file: usize) -> Result<(), String> {
    std::panic::set_hook(Box::new(|_| {}));
    let spec: Value = serde_json::from_str(&std::fs::read_to_string(spec_path).map_err(|e| format!("{e}"))?).map_err(|e| format!("{e}"))?;
    let kt = spec["kt"].as_str().unwrap_or("bytes").to_string();
    let name = "m";
    let rootp = PathBuf::from(root);
    let _ = std::fs::remove_dir_all(&rootp);
    std::fs::create_dir_all(&rootp).map_err(|e| format!("{e}"))?;
    let mut ctx = Ctx::new(rootp.clone(), spec_path);
    ctx.max_slots = 400;
    let tables_op = spec["tables"].clone();
    let tev = ctx.exec(0, &tables_op)?;
    let n_buckets = spec["n"].as_i64().unwrap_or(1);
    // initial image: the prefix, in directory w
    let mut i = 1usize;
    let mut run_op = |ctx: &mut Ctx, op: Value| -> Result<Value, String> {
        i += 1;
        ctx.exec(i, &op)
    };
    run_op(&mut ctx, json!({"op": "open_db", "db": 0, "dir": "w"}))?;
    run_op(&mut ctx, json!({"op": "map", "h": 1, "db": 0, "name": name, "kt": kt, "params": spec["params"]}))?;
    for op in spec["prefix"].as_array().cloned().unwrap_or_default() {
        let ev = run_op(&mut ctx, op)?;
        if ev["outcome"] != "ok" {
            return Err(format!("prefix op failed: {ev}"));
        }
    }
    run_op(&mut ctx, json!({"op": "drop_all"}))?;
    let init = read_image(&rootp.join("w"), name).ok_or("no initial image")?;
    let alphabet: Vec<Value> = spec["alphabet"].as_array().cloned().unwrap_or_default();
    let mut seen: HashMap<(u64, u64, usize), usize> = HashMap::new();
    let mut queue: VecDeque<(usize, Image)> = VecDeque::new();
    seen.insert(image_key(&init), 0);
    queue.push_back((0, init));
    let mut nedges = 0usize;
    let mut nfile = 0usize;
    let mut in_file = 0usize;
    let mut out: Option<std::io::BufWriter<std::fs::File>> = None;
    let mut open_file = |nfile: usize| -> Result<std::io::BufWriter<std::fs::File>, String> {
        let f = std::fs::File::create(format!("{out_prefix}{nfile:04}.ndjson")).map_err(|e| format!("{e}"))?;
        let mut w = std::io::BufWriter::new(f);
        writeln!(w, "{}", json!({"ev": "reset", "design": true, "i": 0, "outcome": "ok"})).map_err(|e| format!("{e}"))?;
        writeln!(w, "{tev}").map_err(|e| format!("{e}"))?;
        Ok(w)
    };
    let wdir = rootp.join("w");
    let mut closed = true;
    while let Some((sid, im)) = queue.pop_front() {
        // decode the source once
        write_image(&wdir, name, &im);
        let src_st = decode::decode_dir(&wdir, name, &ctx.tables, ctx.max_slots);
        for op in alphabet.iter() {
            if out.is_none() || in_file >= per_file {
                if let Some(mut w) = out.take() { w.flush().map_err(|e| format!("{e}"))?; }
                out = Some(open_file(nfile)?);
                nfile += 1;
                in_file = 0;
            }
            let w = out.as_mut().unwrap();
            write_image(&wdir, name, &im);
            writeln!(w, "{}", json!({"ev": "bfs_load", "i": nedges, "m": format!("w/{name}"), "dir": "w", "kt": kt, "n": n_buckets, "sid": sid, "st": src_st, "outcome": "ok"})).map_err(|e| format!("{e}"))?;
            let e1 = run_op(&mut ctx, json!({"op": "open_db", "db": 0, "dir": "w"}))?;
            let e2 = run_op(&mut ctx, json!({"op": "map", "h": 1, "db": 0, "name": name, "kt": kt}))?;
            if e1["outcome"] != "ok" || e2["outcome"] != "ok" {
                writeln!(w, "{e2}").map_err(|e| format!("{e}"))?;
                let _ = run_op(&mut ctx, json!({"op": "drop_all"}));
                continue;
            }
            let mut o = op.clone();
            o["h"] = json!(1);
            let ev = run_op(&mut ctx, o)?;
            writeln!(w, "{ev}").map_err(|e| format!("{e}"))?;
            let _ = run_op(&mut ctx, json!({"op": "drop_all"}));
            nedges += 1;
            in_file += 1;
            if ev["outcome"] != "ok" {
                continue;
            }
            let dec = run_op(&mut ctx, json!({"op": "decode", "dir": "w", "name": name, "native": true}))?;
            writeln!(w, "{dec}").map_err(|e| format!("{e}"))?;
            if let Some(nim) = read_image(&wdir, name) {
                let key = image_key(&nim);
                if !seen.contains_key(&key) {
                    if seen.len() < max_states {
                        let id = seen.len();
                        seen.insert(key, id);
                        queue.push_back((id, nim));
                    } else {
                        closed = false;
                    }
                }
            }
        }
    }
    if let Some(mut w) = out.take() { w.flush().map_err(|e| format!("{e}"))?; }
    println!("{}", json!({"bfs_states": seen.len(), "bfs_edges": nedges, "closed": closed, "files": nfile}));
    Ok(())
}
