//! Key and value tables: `id -> bytes`.  Distinct ids have distinct bytes, so equality of ids is
//! equality of bytes; bytes read back that are in no table map to id -1 ("garbage").
use serde_json::{json, Value};
use std::collections::HashMap;

pub fn fnv64(data: &[u8]) -> u64 {
    let mut h: u64 = 0xcbf29ce484222325;
    for &b in data {
        h ^= b as u64;
        h = h.wrapping_mul(0x100000001b3);
    }
    h
}

pub fn hex(b: &[u8]) -> String {
    let mut s = String::with_capacity(b.len() * 2);
    for x in b {
        s.push_str(&format!("{:02x}", x));
    }
    s
}
pub fn unhex(s: &str) -> Vec<u8> {
    (0..s.len() / 2)
        .map(|i| u8::from_str_radix(&s[2 * i..2 * i + 2], 16).expect("hex"))
        .collect()
}

/// deterministic filler bytes for generated keys/values: the id is embedded so that two ids of
/// the same length never collide (for len >= 4); shorter ones are checked at table load.
pub fn gen_bytes(tag: u8, id: i64, len: usize) -> Vec<u8> {
    let mut v = Vec::with_capacity(len);
    let idb = (id as u32).to_be_bytes();
    let mut x: u32 = (id as u32).wrapping_mul(2654435761).wrapping_add(tag as u32);
    for i in 0..len {
        if i < 4 && len >= 4 {
            v.push(idb[i]);
        } else if i == 4 {
            v.push(tag);
        } else {
            x ^= x << 13;
            x ^= x >> 17;
            x ^= x << 5;
            v.push((x & 0xff) as u8);
        }
    }
    if len < 4 {
        // small universe: spread by id
        for i in 0..len {
            v[i] = ((id as u64 >> (8 * i)) & 0xff) as u8 ^ (tag.wrapping_mul(i as u8 + 1));
        }
    }
    v
}

#[derive(Clone, Debug)]
pub struct KeyEnt {
    pub id: i64,
    pub bytes: Vec<u8>,
    /// integer the key stands for (typed maps), as u64 bit pattern
    pub int: Option<u64>,
}

#[derive(Default)]
pub struct Table {
    pub ents: Vec<(i64, Vec<u8>, Option<u64>)>,
    by_id: HashMap<i64, usize>,
    pub encs: HashMap<i64, String>,
    by_hash: HashMap<(usize, u64), Vec<usize>>,
}

impl Table {
    pub fn add(&mut self, id: i64, bytes: Vec<u8>, int: Option<u64>) -> Result<(), String> {
        if id <= 0 {
            return Err(format!("table id must be >= 1: {id}"));
        }
        if self.by_id.contains_key(&id) {
            return Err(format!("duplicate table id {id}"));
        }
        if self.lookup(&bytes) != -1 {
            return Err(format!("two table ids with the same bytes (id {id}, len {})", bytes.len()));
        }
        let idx = self.ents.len();
        self.by_hash.entry((bytes.len(), fnv64(&bytes))).or_default().push(idx);
        self.by_id.insert(id, idx);
        self.ents.push((id, bytes, int));
        Ok(())
    }
    pub fn get(&self, id: i64) -> Option<&Vec<u8>> {
        self.by_id.get(&id).map(|&i| &self.ents[i].1)
    }
    pub fn int_of(&self, id: i64) -> Option<u64> {
        self.by_id.get(&id).and_then(|&i| self.ents[i].2)
    }
    /// bytes -> id, -1 if unknown
    pub fn lookup(&self, bytes: &[u8]) -> i64 {
        if let Some(v) = self.by_hash.get(&(bytes.len(), fnv64(bytes))) {
            for &i in v {
                if self.ents[i].1 == bytes {
                    return self.ents[i].0;
                }
            }
        }
        -1
    }
    pub fn len_of(&self, id: i64) -> usize {
        self.get(id).map(|b| b.len()).unwrap_or(0)
    }
}

#[derive(Default)]
pub struct Tables {
    pub keys: Table,
    pub vals: Table,
}

impl Tables {
    /// a script line {"op":"tables","keys":[{"id":1,"hex":"6b31"}|{"id":2,"len":70000}|{"id":3,"u64":"5","enc":"u64le|i64le|vu64|be"}],
    ///                "vals":[{"id":1,"len":20}|{"id":2,"hex":".."}]}
    pub fn load(&mut self, line: &Value) -> Result<(), String> {
        if let Some(ks) = line.get("keys").and_then(|v| v.as_array()) {
            for k in ks {
                let id = k["id"].as_i64().ok_or("key id")?;
                let (bytes, int) = key_bytes_of(k, id)?;
                self.keys.add(id, bytes, int)?;
                if int.is_some() {
                    let enc = k.get("enc").and_then(|e| e.as_str()).unwrap_or("u64le");
                    let kt = match enc { "u64le" => "u64", "i64le" => "i64", "vu64" => "vu64", _ => "bytes" };
                    self.keys.encs.insert(id, kt.to_string());
                }
            }
        }
        if let Some(vs) = line.get("vals").and_then(|v| v.as_array()) {
            for v in vs {
                let id = v["id"].as_i64().ok_or("val id")?;
                let bytes = if let Some(h) = v.get("hex").and_then(|h| h.as_str()) {
                    unhex(h)
                } else {
                    gen_bytes(b'v', id, v["len"].as_u64().ok_or("val len")? as usize)
                };
                self.vals.add(id, bytes, None)?;
            }
        }
        Ok(())
    }
}

pub fn vu64_encode(value: u64) -> Vec<u8> {
    // independent re-implementation of the vu64 format table (prefix of ones = extra bytes)
    let bits = 64 - value.leading_zeros() as usize;
    let len = if bits <= 7 { 1 } else if bits <= 14 { 2 } else if bits <= 21 { 3 } else if bits <= 28 { 4 }
        else if bits <= 35 { 5 } else if bits <= 42 { 6 } else if bits <= 49 { 7 } else if bits <= 56 { 8 } else { 9 };
    if len == 1 {
        return vec![value as u8];
    }
    if len >= 8 {
        let mut v = vec![if len == 8 { 0xFE } else { 0xFF }];
        v.extend_from_slice(&value.to_le_bytes()[..len - 1]);
        return v;
    }
    let lowbits = 8 - len; // payload bits in the first byte
    let prefix: u8 = !(0xFFu8 >> (len - 1));
    let first = prefix | ((value & ((1u64 << lowbits) - 1)) as u8);
    let rest = value >> lowbits;
    let mut v = vec![first];
    v.extend_from_slice(&rest.to_le_bytes()[..len - 1]);
    v
}

pub fn vu64_decode(b: &[u8], p: usize) -> Option<(u64, usize)> {
    if p >= b.len() {
        return None;
    }
    let f = b[p];
    let len = f.leading_ones() as usize + 1;
    if p + len > b.len() {
        return None;
    }
    if len == 1 {
        return Some((f as u64, p + 1));
    }
    let mut le = [0u8; 8];
    if len <= 7 {
        le[..len - 1].copy_from_slice(&b[p + 1..p + len]);
        let follow = u64::from_le_bytes(le);
        let low = (f & ((1u16 << (8 - len)) as u8).wrapping_sub(1)) as u64;
        Some(((follow << (8 - len)) | low, p + len))
    } else if len == 8 {
        le[..7].copy_from_slice(&b[p + 1..p + 8]);
        Some((u64::from_le_bytes(le), p + 8))
    } else {
        le.copy_from_slice(&b[p + 1..p + 9]);
        Some((u64::from_le_bytes(le), p + 9))
    }
}

fn key_bytes_of(k: &Value, id: i64) -> Result<(Vec<u8>, Option<u64>), String> {
    if let Some(h) = k.get("hex").and_then(|h| h.as_str()) {
        return Ok((unhex(h), None));
    }
    if let Some(s) = k.get("u64").and_then(|h| h.as_str()) {
        let x: u64 = s.parse().map_err(|_| "u64 parse")?;
        let enc = k.get("enc").and_then(|e| e.as_str()).unwrap_or("u64le");
        let bytes = match enc {
            "u64le" | "i64le" => x.to_le_bytes().to_vec(),
            "be" => x.to_be_bytes().to_vec(),
            "vu64" => vu64_encode(x),
            _ => return Err(format!("unknown enc {enc}")),
        };
        return Ok((bytes, Some(x)));
    }
    let len = k["len"].as_u64().ok_or("key len")? as usize;
    Ok((gen_bytes(b'k', id, len), None))
}

pub fn tables_line_keys(ents: &[(i64, Vec<u8>)]) -> Value {
    Value::Array(ents.iter().map(|(id, b)| json!({"id": id, "hex": hex(b)})).collect())
}
