//! Parent side: splits a script into process segments ("new_process", "kill_here"), runs each
//! segment in a worker child under a watchdog, and assembles the trace.
use serde_json::{json, Value};
use std::io::{BufRead, BufReader, Read, Write};
use std::process::{Command, Stdio};
use std::sync::mpsc;
use std::time::{Duration, Instant};

/// run a command, capture stdout, kill after `secs`
pub fn run_with_timeout(cmd: &mut Command, secs: u64) -> Option<String> {
    let mut child = cmd.stdout(Stdio::piped()).stderr(Stdio::null()).spawn().ok()?;
    let mut out = child.stdout.take()?;
    let (tx, rx) = mpsc::channel();
    std::thread::spawn(move || {
        let mut s = String::new();
        let _ = out.read_to_string(&mut s);
        let _ = tx.send(s);
    });
    match rx.recv_timeout(Duration::from_secs(secs)) {
        Ok(s) => {
            let _ = child.wait();
            Some(s)
        }
        Err(_) => {
            let _ = child.kill();
            let _ = child.wait();
            None
        }
    }
}

pub struct RunOpts {
    pub strace: bool,
    pub root: String,
    pub script: String,
    pub trace: String,
    pub op_timeout: u64,
    pub max_slots: usize,
}

/// returns Ok(number of events) or Err(tool error)
pub fn run_script(o: &RunOpts) -> Result<usize, String> {
    let text = std::fs::read_to_string(&o.script).map_err(|e| format!("script: {e}"))?;
    let ops: Vec<Value> = text
        .lines()
        .filter(|l| !l.trim().is_empty())
        .map(|l| serde_json::from_str(l).map_err(|e| format!("script json: {e}: {l}")))
        .collect::<Result<_, _>>()?;
    let mut trace = std::io::BufWriter::new(std::fs::File::create(&o.trace).map_err(|e| format!("trace: {e}"))?);
    let exe = std::env::current_exe().map_err(|e| format!("{e}"))?;
    let mut nev = 0usize;
    let mut from = 0usize;
    let mut in_epilogue = false;
    while from < ops.len() {
        // segment: up to and including the next process boundary
        let mut to = from;
        while to < ops.len() {
            let n = ops[to]["op"].as_str().unwrap_or("");
            to += 1;
            if n == "new_process" || n == "kill_here" {
                break;
            }
        }
        let kill = ops[to - 1]["op"] == "kill_here";
        let st_file = format!("{}.strace.{}", o.trace, from);
        let mut cmd = if o.strace {
            // syscall level evidence for C03.sync_calls: which file got fsync/fdatasync during which call
            let mut c = Command::new("strace");
            c.args(["-f", "-y", "-e", "trace=fsync,fdatasync,access,lseek,write", "-o", &st_file]).arg(&exe);
            c
        } else {
            Command::new(&exe)
        };
        let mut child = cmd
            .args(["worker", &o.root, &o.script, &from.to_string(), &to.to_string(), &o.max_slots.to_string()])
            .env(if o.strace { "ABYVERIF_STRACE" } else { "ABYVERIF_NOSTRACE" }, "1")
            .stdout(Stdio::piped())
            .stderr(Stdio::piped())
            .spawn()
            .map_err(|e| format!("spawn worker: {e}"))?;
        let stdout = child.stdout.take().unwrap();
        let mut stderr = child.stderr.take().unwrap();
        let (tx, rx) = mpsc::channel::<Option<String>>();
        std::thread::spawn(move || {
            let rd = BufReader::with_capacity(1 << 20, stdout);
            for l in rd.lines() {
                match l {
                    Ok(l) => { if tx.send(Some(l)).is_err() { return; } }
                    Err(_) => break,
                }
            }
            let _ = tx.send(None);
        });
        let mut last_i: i64 = from as i64 - 1;
        let mut aborted = false;
        let mut hang = false;
        let mut last = Instant::now();
        loop {
            match rx.recv_timeout(Duration::from_millis(200)) {
                Ok(Some(l)) => {
                    last = Instant::now();
                    if l.starts_with("{\"TOOLERR\"") {
                        let _ = child.kill();
                        let _ = child.wait();
                        return Err(format!("worker: {l}"));
                    }
                    if let Ok(v) = serde_json::from_str::<Value>(&l) {
                        if let Some(i) = v.get("i").and_then(|i| i.as_i64()) { last_i = i; }
                        if v["outcome"] == "panic" && v.get("cont").is_none() { aborted = true; }
                        let ready = v["ev"] == "kill_here";
                        writeln!(trace, "{l}").map_err(|e| format!("{e}"))?;
                        nev += 1;
                        if ready && kill {
                            // the writer returned from its last call and waits: kill it right here
                            unsafe { libc::kill(child.id() as i32, libc::SIGKILL); }
                            let _ = child.wait();
                            break;
                        }
                    }
                }
                Ok(None) => {
                    let st = child.wait().map_err(|e| format!("{e}"))?;
                    if !st.success() && !aborted {
                        let mut es = String::new();
                        let _ = stderr.read_to_string(&mut es);
                        // a crash of the worker that is not a caught panic (abort, stack overflow, signal):
                        // data about the code under test, attributed to the op in progress
                        let opi = (last_i + 1) as usize;
                        if opi < to {
                            let mut ev = ops[opi].clone();
                            let name = ev["op"].clone();
                            ev["ev"] = name;
                            ev["i"] = json!(opi);
                            ev["outcome"] = json!("panic");
                            ev["msg"] = json!(format!("worker died: {st} {}", es.chars().take(300).collect::<String>()));
                            crate::exec::denull(&mut ev);
                            writeln!(trace, "{ev}").map_err(|e| format!("{e}"))?;
                            nev += 1;
                            aborted = true;
                        }
                    }
                    break;
                }
                Err(mpsc::RecvTimeoutError::Timeout) => {
                    if last.elapsed() > Duration::from_secs(o.op_timeout) {
                        let _ = child.kill();
                        let _ = child.wait();
                        let opi = (last_i + 1) as usize;
                        let mut ev = if opi < to { ops[opi].clone() } else { json!({"op": "end"}) };
                        let name = ev["op"].clone();
                        ev["ev"] = name;
                        ev["i"] = json!(opi);
                        ev["outcome"] = json!("hang");
                        crate::exec::denull(&mut ev);
                        writeln!(trace, "{ev}").map_err(|e| format!("{e}"))?;
                        nev += 1;
                        hang = true;
                        break;
                    }
                }
                Err(_) => break,
            }
        }
        if aborted || hang {
            // the state after an interrupted update is not trusted: the history ends here ...
            writeln!(trace, "{}", json!({"ev": "aborted", "i": last_i + 1, "outcome": "ok"})).map_err(|e| format!("{e}"))?;
            nev += 1;
            // ... except for an epilogue the script marks "always": observations of the FILES (digests and their
            // comparison) that make sense whatever happened to the process, executed by a fresh worker
            let failed = (last_i + 1) as usize;
            match (failed + 1..ops.len()).find(|&i| ops[i].get("always").and_then(|a| a.as_bool()).unwrap_or(false)) {
                Some(a) if !in_epilogue => {
                    in_epilogue = true;
                    from = a;
                    continue;
                }
                _ => break,
            }
        }
        from = to;
    }
    trace.flush().map_err(|e| format!("{e}"))?;
    drop(trace);
    if o.strace {
        attach_syscalls(&o.trace)?;
    }
    Ok(nev)
}

/// parse the strace logs of all segments: the worker brackets every flush/sync call with
/// access("/abyverif-op-<i>") markers; the syncs seen between the markers are attached to event i as
/// "sys": [[file, "sync_all"|"sync_data"], ...]
fn attach_syscalls(trace_path: &str) -> Result<(), String> {
    use std::collections::HashMap;
    let dir = std::path::Path::new(trace_path).parent().unwrap_or(std::path::Path::new("."));
    let base = std::path::Path::new(trace_path).file_name().unwrap().to_string_lossy().to_string();
    let mut sys: HashMap<i64, Vec<Value>> = HashMap::new();
    // writes of the flush, as (file, offset, length): binding of AbyBuf's flush order to the code
    let mut wr: HashMap<i64, Vec<Value>> = HashMap::new();
    let mut pos: HashMap<String, u64> = HashMap::new();
    let mut incomplete: std::collections::HashSet<i64> = std::collections::HashSet::new();
    let file_of = |arg: &str| -> &'static str {
        let head = arg.split(',').next().unwrap_or("");
        if head.contains(".val>") { "val" } else if head.contains(".key>") { "key" } else if head.contains(".htx>") { "htx" } else { "other" }
    };
    for e in std::fs::read_dir(dir).map_err(|e| format!("{e}"))?.flatten() {
        let f = e.file_name().to_string_lossy().to_string();
        if !f.starts_with(&format!("{base}.strace.")) { continue; }
        let text = std::fs::read_to_string(e.path()).unwrap_or_default();
        let mut cur: Option<i64> = None;
        // a call that strace reports in two pieces ("<unfinished ...>" / "<... name resumed>", which happens
        // when a signal or another traced process gets in between) is put together again, at the place
        // where it completed
        let mut pending: HashMap<String, String> = HashMap::new();
        let mut merged: Vec<String> = Vec::new();
        for raw in text.lines() {
            let pid = raw.split_whitespace().next().unwrap_or("").to_string();
            if let Some(p) = raw.find("<unfinished ...>") {
                pending.insert(pid, raw[..p].trim_end().to_string());
            } else if let (Some(a), Some(b)) = (raw.find("<... "), raw.find(" resumed>")) {
                if a < b {
                    let head = pending.remove(&pid).unwrap_or_default();
                    merged.push(format!("{} {}", head, &raw[b + 9..]));
                } else {
                    merged.push(raw.to_string());
                }
            } else {
                merged.push(raw.to_string());
            }
        }
        for line in merged.iter().map(|s| s.as_str()) {
            if let Some(p) = line.find("access(\"/abyverif-op-") {
                let rest = &line[p + 21..];
                let num: String = rest.chars().take_while(|c| c.is_ascii_digit()).collect();
                let begin = rest[num.len()..].starts_with("-begin");
                cur = if begin { num.parse().ok() } else { None };
                if let Some(i) = cur { sys.entry(i).or_default(); }
            } else if let Some(i) = cur {
                if let Some(p) = line.find(" lseek(") {
                    let arg = &line[p + 7..];
                    let f = file_of(arg);
                    if f != "other" && arg.contains("SEEK_SET") {
                        if let Some(off) = arg.split(',').nth(1).and_then(|x| x.trim().parse::<u64>().ok()) {
                            pos.insert(arg.split(',').next().unwrap_or("").to_string(), off);
                        }
                    }
                } else if let Some(p) = line.find(" write(") {
                    let arg = &line[p + 7..];
                    let f = file_of(arg);
                    if f != "other" {
                        let key = arg.split(',').next().unwrap_or("").to_string();
                        let n = line.rsplit("= ").next().and_then(|x| x.trim().parse::<u64>().ok()).unwrap_or(0);
                        let off = *pos.get(&key).unwrap_or(&0);
                        let v = wr.entry(i).or_default();
                        if v.len() < 400 { v.push(json!([f, off, n])); }
                        pos.insert(key, off + n);
                    }
                }
                let mut seen = false;
                for (call, op) in [("fsync(", "sync_all"), ("fdatasync(", "sync_data")] {
                    if let Some(p) = line.find(call) {
                        if line[..p].ends_with(' ') || p == 0 || line[..p].ends_with('>') {
                            let arg = &line[p + call.len()..];
                            let file = if arg.contains(".val>") { "val" } else if arg.contains(".key>") { "key" } else if arg.contains(".htx>") { "htx" } else { "other" };
                            if line.contains("= 0") { sys.get_mut(&i).unwrap().push(json!([file, op])); seen = true; }
                            if line.contains("= -1") { seen = true; }
                        }
                    }
                }
                // a line that mentions a sync call and could not be read: the observation of this call is
                // incomplete, so no syscall list is attached to it (no verdict from half an observation)
                if !seen && line.contains("sync") && !line.contains("abyverif-op-") {
                    incomplete.insert(i);
                }
            }
        }
        let _ = std::fs::remove_file(e.path());
    }
    let text = std::fs::read_to_string(trace_path).map_err(|e| format!("{e}"))?;
    let mut out = String::with_capacity(text.len() + 1024);
    for l in text.lines() {
        let mut v: Value = serde_json::from_str(l).map_err(|e| format!("{e}"))?;
        if let Some(i) = v.get("i").and_then(|i| i.as_i64()) {
            if let Some(s) = sys.get(&i) {
                if v.get("io").is_some() && !incomplete.contains(&i) {
                    v["sys"] = Value::Array(s.clone());
                    v["wr"] = Value::Array(wr.get(&i).cloned().unwrap_or_default());
                }
            }
        }
        out.push_str(&v.to_string());
        out.push('\n');
    }
    std::fs::write(trace_path, out).map_err(|e| format!("{e}"))
}

/// worker child: executes ops[from..to], one event line per op on stdout
pub fn worker(root: &str, script: &str, from: usize, to: usize, max_slots: usize) {
    std::panic::set_hook(Box::new(|_| {}));
    let text = std::fs::read_to_string(script).expect("script");
    let ops: Vec<Value> = text.lines().filter(|l| !l.trim().is_empty()).map(|l| serde_json::from_str(l).expect("json")).collect();
    let mut ctx = crate::exec::Ctx::new(std::path::PathBuf::from(root), script);
    ctx.max_slots = max_slots;
    let out = std::io::stdout();
    let mut out = std::io::BufWriter::with_capacity(1 << 16, out.lock());
    // tables are process independent: (re)load all table lines that precede this segment
    for op in ops.iter().take(from) {
        if op["op"] == "tables" {
            if let Err(e) = ctx.tables.load(op) {
                let _ = writeln!(out, "{}", json!({"TOOLERR": e}));
                return;
            }
        }
    }
    let strace = std::env::var("ABYVERIF_STRACE").is_ok();
    for i in from..to {
        let syncop = matches!(ops[i]["op"].as_str().unwrap_or(""), "flush" | "sync_all" | "sync_data" | "db_sync_all" | "db_sync_data");
        if strace && syncop {
            let p = std::ffi::CString::new(format!("/abyverif-op-{i}-begin")).unwrap();
            unsafe { libc::access(p.as_ptr(), libc::F_OK); }
        }
        let r = ctx.exec(i, &ops[i]);
        if strace && syncop {
            let p = std::ffi::CString::new(format!("/abyverif-op-{i}-end")).unwrap();
            unsafe { libc::access(p.as_ptr(), libc::F_OK); }
        }
        match r {
            Ok(ev) => {
                let stop = ev["outcome"] == "panic" && ev.get("cont").is_none();
                let _ = writeln!(out, "{ev}");
                let _ = out.flush();
                if stop {
                    std::process::exit(3);
                }
                if ev["ev"] == "kill_here" {
                    // wait to be killed with every handle still alive
                    loop {
                        std::thread::sleep(Duration::from_secs(3600));
                    }
                }
            }
            Err(e) => {
                let _ = writeln!(out, "{}", json!({"TOOLERR": e, "i": i}));
                let _ = out.flush();
                std::process::exit(2);
            }
        }
    }
    let _ = out.flush();
    // new_process: all handles are dropped here by scope end (clean close)
    drop(ctx);
}
