//! Independent decoder of one map `<dir>/<name>.{htx,key,val}` — the projection function of the
//! conformance checks.  Written from the layout documentation (DESIGN.md §1); shares no code with
//! the crate: it re-implements vu64 decoding, the header offsets and the placement hash.
//! It classifies nothing: which slots are *used* is decided by the TLA+ formulas (reachability).
use crate::tables::{fnv64, vu64_decode, Tables};
use serde_json::{json, Map, Value};
use std::path::Path;

pub const HTX_HDR: usize = 128;
pub const DAT_HDR: usize = 192;
const INT_CAP: u64 = 1 << 31; // TLC integers are 32 bit: anything above is reported as -1

fn cap(x: u64) -> i64 {
    if x >= INT_CAP { -1 } else { x as i64 }
}
fn u64le(b: &[u8], p: usize) -> Option<u64> {
    if p + 8 > b.len() { return None; }
    let mut a = [0u8; 8];
    a.copy_from_slice(&b[p..p + 8]);
    Some(u64::from_le_bytes(a))
}

/// the documented placement hash: the key length as 8 bytes in native (little endian) order and
/// then the key bytes, folded 8 bytes at a time (big endian) through xorshift after a wrapping add
pub fn placement_hash(key: &[u8]) -> u64 {
    fn xs(mut x: u64) -> u64 {
        x ^= x >> 12;
        x ^= x << 25;
        x ^= x >> 27;
        x
    }
    fn write(mut h: u64, bs: &[u8]) -> u64 {
        for c in bs.chunks(8) {
            let mut a: u64 = 0;
            for &b in c {
                a = (a << 8) | b as u64;
            }
            h = xs(h.wrapping_add(a));
        }
        h
    }
    let h = write(0, &(key.len() as u64).to_le_bytes());
    write(h, key)
}

pub struct Files {
    pub htx: Vec<u8>,
    pub key: Vec<u8>,
    pub val: Vec<u8>,
}

pub fn read_files(dir: &Path, name: &str) -> std::io::Result<Files> {
    Ok(Files {
        htx: std::fs::read(dir.join(format!("{name}.htx")))?,
        key: std::fs::read(dir.join(format!("{name}.key")))?,
        val: std::fs::read(dir.join(format!("{name}.val")))?,
    })
}

pub fn digest(dir: &Path, name: &str) -> Value {
    let mut out = vec![];
    for ext in ["htx", "key", "val"] {
        match std::fs::read(dir.join(format!("{name}.{ext}"))) {
            Ok(b) => out.push(json!({"len": cap(b.len() as u64), "fnv": format!("{:016x}", fnv64(&b))})),
            Err(_) => out.push(json!({"len": -1, "fnv": "absent"})),
        }
    }
    Value::Array(out)
}

fn all_zero(b: &[u8], from: usize, to: usize) -> bool {
    if from >= to { return true; }
    if to > b.len() { return false; }
    b[from..to].iter().all(|&x| x == 0)
}

/// walk the slots of a key or value file.  Every slot gets both interpretations:
/// "used" (len, payload id, offsets, padding) and "free" (u64le next behind the zero length byte).
fn walk(f: &[u8], is_key: bool, tables: &Tables, max_slots: usize) -> (Vec<Value>, i64, bool) {
    let mut slots = vec![];
    let mut p = DAT_HDR;
    let mut truncated = false;
    while p < f.len() {
        if slots.len() >= max_slots {
            truncated = true;
            break;
        }
        let (sz8, q) = match vu64_decode(f, p) { Some(x) => x, None => break };
        let size = sz8.saturating_mul(8);
        if size == 0 || size >= INT_CAP || p as u64 + size > f.len() as u64 {
            break;
        }
        let end = p + size as usize;
        let mut o = Map::new();
        o.insert("off".into(), json!(p));
        o.insert("size".into(), json!(size));
        let (len, q2) = match vu64_decode(f, q) { Some(x) => x, None => (u64::MAX, q) };
        // free interpretation: 0x00 then u64le next
        let (fnext, fpad) = if q < f.len() && f[q] == 0 {
            match u64le(f, q + 1) {
                Some(n) if q + 9 <= end => (cap(n), all_zero(f, q + 9, end)),
                _ => (-1, false),
            }
        } else {
            (-1, false)
        };
        o.insert("fnext".into(), json!(fnext));
        o.insert("fpad".into(), json!(fpad));
        // used interpretation
        let mut id: i64 = -1;
        let mut voff: i64 = -1;
        let mut nxt: i64 = -1;
        let mut pad = false;
        let mut lenv: i64 = -1;
        if len != u64::MAX && (q2 as u64).saturating_add(len) <= end as u64 {
            lenv = cap(len);
            let body = &f[q2..q2 + len as usize];
            id = if is_key { tables.keys.lookup(body) } else { tables.vals.lookup(body) };
            let after = q2 + len as usize;
            if is_key {
                if let Some((vo8, q3)) = vu64_decode(f, after) {
                    if let Some((nx8, q4)) = vu64_decode(f, q3) {
                        if q4 <= end {
                            voff = cap(vo8.saturating_mul(8));
                            nxt = cap(nx8.saturating_mul(8));
                            pad = all_zero(f, q4, end);
                        }
                    }
                }
            } else {
                pad = all_zero(f, after, end);
            }
        }
        // bytes the record needs counted from the start of its slot, whether or not they fit the slot
        // (-1: no record can be read here at all): a record that needs more than its slot has spilled
        // into the piece behind it (C09)
        let mut need: i64 = -1;
        if len != u64::MAX && (q2 as u64).saturating_add(len) <= f.len() as u64 {
            let after = q2 + len as usize;
            if is_key {
                if let Some((_, q3)) = vu64_decode(f, after) {
                    if let Some((_, q4)) = vu64_decode(f, q3) {
                        need = (q4 - p) as i64;
                    }
                }
            } else {
                need = (after - p) as i64;
            }
        }
        o.insert("need".into(), json!(need));
        o.insert("len".into(), json!(lenv));
        o.insert("id".into(), json!(id));
        o.insert("voff".into(), json!(voff));
        o.insert("nxt".into(), json!(nxt));
        o.insert("pad".into(), json!(pad));
        slots.push(Value::Object(o));
        p = end;
    }
    (slots, p as i64, truncated)
}

/// decoded state of one map as JSON (the `st` field of trace events)
pub fn decode(files: &Files, tables: &Tables, max_slots: usize) -> Value {
    let htx = &files.htx;
    let mut o = Map::new();
    let sig = |b: &[u8], p: usize| -> String {
        if b.len() >= p + 8 { String::from_utf8_lossy(&b[p..p + 8]).replace('\0', "~") } else { "short".into() }
    };
    o.insert("sig1".into(), json!([sig(htx, 0), sig(&files.key, 0), sig(&files.val, 0)]));
    o.insert("sig2".into(), json!([sig(htx, 8), sig(&files.key, 8), sig(&files.val, 8)]));
    let n = u64le(htx, 16).unwrap_or(0);
    let cnt = u64le(htx, 24).unwrap_or(0);
    o.insert("n".into(), json!(cap(n)));
    o.insert("cnt".into(), json!(cap(cnt)));
    o.insert("hlen".into(), json!(htx.len()));
    // reserved header space must stay zero
    o.insert("hdr_zero".into(), json!([
        all_zero(htx, 32, HTX_HDR.min(htx.len())),
        all_zero(&files.key, 16, 48.min(files.key.len())) && all_zero(&files.key, 176, DAT_HDR.min(files.key.len())),
        all_zero(&files.val, 16, 32.min(files.val.len())) && all_zero(&files.val, 160, DAT_HDR.min(files.val.len()))
    ]));
    let mut heads = vec![];
    let mut bm = vec![];
    let mut heads_ok = true;
    if n < INT_CAP && HTX_HDR as u64 + 8 * n <= htx.len() as u64 {
        let n = n as usize;
        for b in 0..n {
            let h = u64le(htx, HTX_HDR + 8 * b).unwrap();
            if h != 0 {
                heads.push(json!([b, cap(h)]));
            }
        }
        let bms = HTX_HDR + 8 * n;
        for (i, &byte) in htx[bms..].iter().enumerate() {
            if byte != 0 {
                for j in 0..8 {
                    if byte & (1 << j) != 0 {
                        bm.push(json!(i * 8 + j));
                    }
                }
            }
        }
    } else {
        heads_ok = false;
    }
    o.insert("heads_ok".into(), json!(heads_ok));
    o.insert("heads".into(), Value::Array(heads));
    o.insert("bm".into(), Value::Array(bm));
    let (ks, kwalk, ktr) = walk(&files.key, true, tables, max_slots);
    let (vs, vwalk, vtr) = walk(&files.val, false, tables, max_slots);
    o.insert("truncated".into(), json!(ktr || vtr));
    o.insert("ks".into(), Value::Array(ks));
    o.insert("kwalk".into(), json!(kwalk));
    o.insert("kend".into(), json!(files.key.len()));
    o.insert("vs".into(), Value::Array(vs));
    o.insert("vwalk".into(), json!(vwalk));
    o.insert("vend".into(), json!(files.val.len()));
    let fl = |f: &[u8], base: usize| -> Value {
        Value::Array((0..16).map(|c| json!(u64le(f, base + 8 * c).map(cap).unwrap_or(-1))).collect())
    };
    o.insert("kfree".into(), fl(&files.key, 48));
    o.insert("vfree".into(), fl(&files.val, 32));
    Value::Object(o)
}

pub fn decode_dir(dir: &Path, name: &str, tables: &Tables, max_slots: usize) -> Value {
    match read_files(dir, name) {
        Ok(f) => decode(&f, tables, max_slots),
        Err(e) => json!({"error": format!("{e}")}),
    }
}

/// Native monitor for images above the TLC slot cap: mirrors the TLA+ invariant definitions
/// (StructureOK, SpaceOK, FitsOK, AbsMap) one to one on the decoded JSON.  Returns the list of
/// failed conjunct names and the recovered contents (key id -> value id).
pub fn monitor(st: &Value, tables: &Tables) -> (Vec<String>, Vec<(i64, i64)>) {
    use std::collections::{HashMap, HashSet};
    let mut fails: Vec<String> = vec![];
    let mut fail = |s: &str| { if !fails.iter().any(|x| x == s) { fails.push(s.to_string()); } };
    let n = st["n"].as_i64().unwrap_or(-1);
    let geti = |v: &Value, k: &str| v[k].as_i64().unwrap_or(-1);
    let mut ks: HashMap<i64, &Value> = HashMap::new();
    for s in st["ks"].as_array().unwrap() { ks.insert(geti(s, "off"), s); }
    let mut vs: HashMap<i64, &Value> = HashMap::new();
    for s in st["vs"].as_array().unwrap() { vs.insert(geti(s, "off"), s); }
    if st["kwalk"] != st["kend"] || st["vwalk"] != st["vend"] { fail("C06.tiles"); }
    let class = |z: i64| -> usize { match z { 16 => 0, 24 => 1, 32 => 2, 48 => 3, 64 => 4, 80 => 5, 96 => 6, 112 => 7, 128 => 8, 256 => 9, 384 => 10, 512 => 11, 640 => 12, 768 => 13, 896 => 14, _ => 15 } };
    for s in ks.values().chain(vs.values()) { let z = geti(s, "size"); if z % 8 != 0 || z < 16 { fail("C06.sizes"); } }
    // chains
    let mut reach: Vec<i64> = vec![];
    let mut seen: HashSet<i64> = HashSet::new();
    let mut content: Vec<(i64, i64)> = vec![];
    let mut keyids: HashSet<i64> = HashSet::new();
    let mut usedv: HashSet<i64> = HashSet::new();
    let bm: HashSet<i64> = st["bm"].as_array().unwrap().iter().map(|b| b.as_i64().unwrap()).collect();
    let enc = |v: i64| -> i64 { if v < 128 { 1 } else if v < 16384 { 2 } else if v < 2097152 { 3 } else if v < 268435456 { 4 } else { 5 } };
    for h in st["heads"].as_array().unwrap() {
        let b = h[0].as_i64().unwrap();
        let mut cur = h[1].as_i64().unwrap();
        if b < 0 || b >= n { fail("C05.heads"); }
        if !bm.contains(&b) { fail("C05.bitmap"); }
        while cur != 0 {
            let s = match ks.get(&cur) { Some(s) => *s, None => { fail("C05.chains"); break } };
            if !seen.insert(cur) { fail("C05.chains"); break; }
            reach.push(cur);
            let id = geti(s, "id");
            if id < 1 { fail("C05.buckets"); } else {
                let kb = tables.keys.get(id).unwrap();
                if n > 0 && (placement_hash(kb) % n as u64) as i64 != b { fail("C05.buckets"); }
                if !keyids.insert(id) { fail("C05.nodup"); }
            }
            let voff = geti(s, "voff");
            let (len, size, nxt) = (geti(s, "len"), geti(s, "size"), geti(s, "nxt"));
            if enc(size / 8) + enc(len) + len + enc(voff / 8) + enc(nxt / 8) > size { fail("C09.fits"); }
            if geti(s, "need") > size { fail("C09.fits"); }
            match vs.get(&voff) {
                None => { fail("C05.valrefs"); content.push((id, -1)); }
                Some(v) => {
                    if !usedv.insert(voff) { fail("C05.shared"); }
                    let (vl, vz) = (geti(v, "len"), geti(v, "size"));
                    if enc(vz / 8) + enc(vl) + vl > vz { fail("C09.fits"); }
                    if geti(v, "need") > vz { fail("C09.fits"); }
                    content.push((id, geti(v, "id")));
                }
            }
            cur = nxt;
        }
    }
    if st["cnt"].as_i64().unwrap_or(-1) != reach.len() as i64 { fail("C05.count"); }
    // free lists
    let mut check_free = |slots: &HashMap<i64, &Value>, heads: &Value, used: &HashSet<i64>, fail: &mut dyn FnMut(&str)| {
        let mut free: HashSet<i64> = HashSet::new();
        for (c, h) in heads.as_array().unwrap().iter().enumerate() {
            let mut cur = h.as_i64().unwrap();
            while cur != 0 {
                let s = match slots.get(&cur) { Some(s) => *s, None => { fail("C06.freelists"); break } };
                if !free.insert(cur) { fail("C06.freelists"); break; }
                if class(geti(s, "size")) != c || geti(s, "len") != 0 { fail("C06.freelists"); }
                cur = geti(s, "fnext");
            }
        }
        if used.iter().any(|u| free.contains(u)) { fail("C06.partition"); }
        if slots.keys().any(|o| !free.contains(o) && !used.contains(o)) { fail("C06.partition"); }
    };
    let reachset: HashSet<i64> = reach.iter().cloned().collect();
    check_free(&ks, &st["kfree"], &reachset, &mut fail);
    check_free(&vs, &st["vfree"], &usedv, &mut fail);
    content.sort();
    (fails, content)
}
