#!/bin/sh
# Builds the conformance harness offline (both profiles), parses every specification module and runs
# the binding self-test (a corrupted trace must be rejected).  Everything comes from files on disk.
set -e
cd "$(dirname "$(readlink -f "$0")")"
export CARGO_NET_OFFLINE=true
(cd harness && cargo build --offline --profile checked 2>&1 | tail -1 && cargo build --offline --profile fast 2>&1 | tail -1)
(cd spec && for m in AbyLayoutArith AbyLayout AbyHash AbyCodec AbyFormat AbyMap AbyBulk AbyStore AbyScan AbyBuf AbyDb AbyReg AbyTrace MCStore MCStoreB MCScan MCDb MCReg MCBulk MCCodec MCHash MCLayout; do
   tla-sany $m.tla > /tmp/sany_$$.log 2>&1 || { cat /tmp/sany_$$.log; echo "SANY failed on $m"; exit 2; }; done; rm -f /tmp/sany_$$.log)
# the proofs (TLAPS) about AbyLayoutArith, AbyBuf and AbyReg
(cd spec/proofs && for m in AbyLayoutProofs AbyBufProofs AbyRegProofs; do
   tlapm -I .. --cache-dir ../../out/tlacache_setup --threads 8 $m.tla 2>&1 | grep -E "obligations (proved|failed)" || { echo "tlapm failed on $m"; exit 2; }; done; rm -rf ../../out/tlacache_setup)
bin/selftest | tail -12
echo setup ok
