#!/bin/sh
# Builds the conformance harness offline (both profiles), parses every specification module and runs
# the binding self-test (a corrupted trace must be rejected).  Everything comes from files on disk.
set -e
cd "$(dirname "$(readlink -f "$0")")"
export CARGO_NET_OFFLINE=true
(cd harness && cargo build --offline --profile checked 2>&1 | tail -1 && cargo build --offline --profile fast 2>&1 | tail -1)
(cd spec && for m in AbyLayout AbyHash AbyCodec AbyMap AbyBulk AbyStore AbyScan AbyBuf AbyDb AbyTrace MCStore MCScan MCDb MCBulk MCCodec MCHash MCLayout; do
   tla-sany $m.tla > /tmp/sany_$$.log 2>&1 || { cat /tmp/sany_$$.log; echo "SANY failed on $m"; exit 2; }; done; rm -f /tmp/sany_$$.log)
bin/selftest | tail -9
echo setup ok
