#!/bin/sh
# build the conformance harness offline and parse the specification
set -e
cd /verif/harness
cargo build --profile checked 2>&1 | tail -2
cd /verif/spec
for m in AbyLayout AbyStore AbyScan AbyMap; do tla-sany $m.tla >/dev/null; done
echo setup ok
