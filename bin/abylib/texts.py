"""MANIFEST texts per property"""
TRUST = ("Trusted: TLC 1.8 + CommunityModules; the independent decoder and id tables of the harness (cross-checked against the TLA+ "
         "formulas on every small state); the bounds of the exploration (constants of the MC configurations, seeds and sizes of the "
         "workloads) — within them every state/event is judged, outside them nothing is claimed.")
T = "TLA+ spec + TLC model checking + trace validation of recorded executions (TLC as trace checker)"
LEVEL = {
 "C01": dict(technique=T, text="TLC checks exhaustively (MCStore_*: every interleaving of put/overwrite/delete over colliding keys and boundary value sizes) "
    "that the design layer AbyStore refines the ideal map AbyMap; seeded histories (L2: decoded state after every update; L1: up to 1e5 calls) are "
    "executed on the real crate and every logged result/outcome is compared by TLC (AbyTrace, conjuncts C01.result / C01.outcome) with the contract; "
    "logged storage states must equal the design-layer successor (SPEC-DRIFT otherwise).", note=TRUST),
 "C05": dict(technique=T, text="StructureOK (chains acyclic, keys in their bucket, no duplicate key, no shared value, count = reachable, bitmap covers heads, "
    "value references valid) is an invariant of every reachable state of MCStore_* and is evaluated by TLC on every storage state decoded from the real "
    "files by the independent decoder (after every update in L2 histories, at every close in long histories), together with AbsMap(decoded) = ideal map.", note=TRUST),
 "C06": dict(technique=T, text="SpaceOK (tiling, legal sizes, every slot used xor on exactly one well-formed free list of its class) is an invariant of all "
    "MCStore_* states (no state constraint: termination shows file sizes are bounded for a bounded alphabet) and is evaluated on every decoded state; step "
    "conjuncts on consecutive decoded states: C06.extend_only_if_no_free, C06.bound (slots per class <= peak used + 1); statistics calls must terminate.", note=TRUST),
 "C09": dict(technique=T, text="FitsOK (encoded record <= slot, zero padding) on every model state and every decoded state, C09.neighbours between consecutive "
    "decoded states, round trip of every value through the contract (C01.result); MCLayout enumerates the slot arithmetic exhaustively and the layout-probe "
    "hook compares the crate's own sizing decision with the table TLC emitted.", note=TRUST),
 "C17": dict(technique=T, text="Each statistics figure is recomputed by TLC from the decoded structure (free-list lengths per class, size/length histograms "
    "of live non-empty records, occupied buckets) and from the contract state and compared with what the crate reported (C17.*); StatsOK is an "
    "invariant of MCStore_* (slot walk = live + free).", note=TRUST),
}
NA = {}
