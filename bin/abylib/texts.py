"""MANIFEST texts per property"""
TRUST = ("Trusted: TLC 1.8 + CommunityModules; the independent decoder and id tables of the harness (cross-checked against the TLA+ "
         "formulas on every small state); the bounds of the exploration (constants of the MC configurations, seeds and sizes of the "
         "workloads) — within them every state/event is judged, outside them nothing is claimed.")
T = "TLA+ spec + TLC model checking + trace validation of recorded executions (TLC as trace checker)"
LEVEL = {
 "C01": dict(technique=T, text="TLC checks exhaustively (MCStore_*: every interleaving of put/overwrite/delete over colliding keys and boundary value sizes) "
    "that the design layer AbyStore refines the ideal map AbyMap; seeded histories (L2: decoded state after every update; L1: up to 1e5 calls) are "
    "executed on the real crate and every logged result/outcome is compared by TLC (AbyTrace, conjuncts C01.result / C01.outcome) with the contract; "
    "logged storage states must equal the design-layer successor (SPEC-DRIFT otherwise).", note=TRUST),
 "C05": dict(technique=T, text="StructureOK (chains acyclic, keys in their bucket, no duplicate key, no shared value, count = reachable, bitmap covers heads, "
    "value references valid) is an invariant of every reachable state of MCStore_* and is evaluated by TLC on every storage state decoded from the real "
    "files by the independent decoder (after every update in L2 histories, at every close in long histories), together with AbsMap(decoded) = ideal map.", note=TRUST),
 "C06": dict(technique=T, text="SpaceOK (tiling, legal sizes, every slot used xor on exactly one well-formed free list of its class) is an invariant of all "
    "MCStore_* states (no state constraint: termination shows file sizes are bounded for a bounded alphabet) and is evaluated on every decoded state; step "
    "conjuncts on consecutive decoded states: C06.extend_only_if_no_free, C06.bound (slots per class <= peak used + 1); statistics calls must terminate.", note=TRUST),
 "C09": dict(technique=T, text="FitsOK (encoded record <= slot, zero padding) on every model state and every decoded state, C09.neighbours between consecutive "
    "decoded states, round trip of every value through the contract (C01.result); MCLayout enumerates the slot arithmetic exhaustively and the layout-probe "
    "hook compares the crate's own sizing decision with the table TLC emitted; for EVERY length and offset below 2^31 the same facts (record <= slot, "
    "slot shape, monotonicity, the free-slot image fits) are proved with TLAPS about the very module the checks use (spec/proofs/AbyLayoutProofs.tla, re-checked by tlapm "
    "in every run); key lengths are swept end to end as well (keys up to 200000 bytes between two chain neighbours).", note=TRUST + " TLAPS 1.6 with its SMT back end for the proofs."),
 "C17": dict(technique=T, text="Each statistics figure is recomputed by TLC from the decoded structure (free-list lengths per class, size/length histograms "
    "of live non-empty records, occupied buckets) and from the contract state and compared with what the crate reported (C17.*); StatsOK is an "
    "invariant of MCStore_* (slot walk = live + free).", note=TRUST),
}
LEVEL["C08"] = dict(technique=T, text="TLC explores exhaustively the seeded configuration MCStore_w16k (four colliding keys whose records exactly fill "
    "their slots, free slots below and file ends above the 16 KiB offset-width boundary): the design layer with relink cascades refines the ideal map in "
    "every reachable state; witness properties that TLC must violate prove the branches value-moved / key-moved / predecessor-moved / two-predecessors-moved "
    "are reachable. The same shapes (16 KiB and 2 MiB boundaries) are driven through the real crate with the decoded state after every update; conjuncts "
    "C08.others_keep, C01.result/outcome, C05.content/count, and exact equality with the design-layer successor.", note=TRUST)
LEVEL["C04"] = dict(technique=T, text="AbyScan transcribes the bitmap scan and the iterator literally; TLC checks for EVERY occupancy bitmap of tables with "
    "1..16 buckets and every occupancy set of <= 3 (quick: 2-3) buckets of tables with 32..1024 buckets that iteration yields each occupied bucket's chain "
    "exactly once, with exact size hints and fused end (the pinned scan is rejected by the same configuration: defect D2 is found by the model); IterOK holds "
    "in every MCStore state. The real crate is driven into the occupancy patterns the scan distinguishes (bucket n-9, n-8, n-1, stride borders), through "
    "inserts/overwrites/deletes and emptied-again maps, for 12+ table sizes and all iterator flavours; conjuncts C04.items/count/hints/fused against the contract.", note=TRUST)
LEVEL["C02"] = dict(technique=T, text="Contract AbyDurable/AbyDb inside the trace specification: dropping every handle makes the durable image equal the ideal map, "
    "reopening (any parameters) yields it back. Histories close and reopen at random points (also right after deletes/overwrites, repeatedly), alternately "
    "in-process and in a freshly spawned process, with reopen parameters drawn independently of the creation parameters; after each reopen len, get of every "
    "table key, a full iteration and the independently decoded image are compared by TLC with the contract state (C02.content, C05.content). Design under "
    "the contract (AbyReg): the session end DropAll flushes every buffered instance (rabuf Drop, AbyBuf.Drop) and the next open reads the files; CloseDurable "
    "(what every handle observed at the end of the session is what the files hold) and OpenReadsDisk are model-checked, TLC must violate CloseDurable when a getter "
    "creates a second instance (MCReg_close_w), and for every number of names/types/handles CloseDurable is PROVED from the inductive invariant "
    "(one instance per name; a clean instance holds what its files hold) with TLAPS (spec/proofs/AbyRegProofs.tla, 288 obligations).", note=TRUST + " TLAPS 1.6 (SMT back end).")
LEVEL["C03"] = dict(technique=T, text="Durability contract in the trace specification: after flush/sync_data/sync_all = ok (map or database level) and before the next update "
    "the disk image is known to equal the ideal map. Every such call in the generated histories is a crash point: the directory is copied with all handles "
    "alive and opened in another process (C03.snapshot), in a third of the histories the writer is SIGKILLed right after a database sync and the directory "
    "itself is reopened; sync calls must reach the OS for each of the three files (C03.sync_calls, from the io-trace hook); created-only maps must snapshot to "
    "a valid empty map; histories in which an overwrite relocates the head record of a chain are flushed and snapshot after every update. The buffering design "
    "itself (AbyBuf: chunk cache, map-level dirty flag, flush order) has its invariants model-checked for small caches and PROVED inductive with TLAPS for every cache "
    "size and number of chunks (spec/proofs/AbyBufProofs.tla, re-checked by tlapm in every run).", note=TRUST + " TLAPS 1.6 with its SMT back end for the proofs. The OS-sync evidence comes from the io-trace hook in VarFile (thorough: cross-checked with strace).")
LEVEL["C16"] = dict(technique=T, text="Fault mode of the durability contract: with RLIMIT_FSIZE lowered to a threshold (SIGXFSZ ignored, full buffering so only the flush writes) "
    "one flush/sync runs; if it answers ok a snapshot must equal the ideal map (C16.reported), all reads afterwards equal the contract (C16.view), and after "
    "the limit is lifted the next flush must be ok and its snapshot equal the ideal map (C16.recover). Thresholds sweep 0..beyond the file ends incl. header "
    "and 128 KiB chunk borders for three workload shapes so that each of the three files is in turn the first to fail; in further histories the call is retried "
    "while the condition persists and after it is lifted, with updates in between. FlushErrKeeps / FlushDurable of the design (AbyBuf) are model-checked and proved "
    "inductive with TLAPS for every cache size (spec/proofs/AbyBufProofs.tla).", note=TRUST + " TLAPS 1.6 (SMT back end). Kernel semantics of RLIMIT_FSIZE.")
LEVEL["C07"] = dict(technique=T, text="The contract layer has no parameter at all: the same seeded history is executed under several configurations (bucket parameter "
    "BucketsSize/Capacity 1..65536/Default x Size/PerMille/Auto buffers per file, with enough data to pass several buffer chunks and force eviction) and every "
    "configuration must agree with the ONE model, event by event; the stored bucket count must equal BucketsFromParam (AbyLayout) of the creation parameter "
    "for ever (C07.n) and a reopen with other parameters must yield the stored contents (C07.reopen). The PerMille(<1000) hang in the rabuf dependency is a "
    "known finding with its own scenario.", note=TRUST)
LEVEL["C10"] = dict(technique=T, text="AbyCodec transcribes the u64/i64 little-endian and vu64 encodings on 16-bit limbs; TLC evaluates, for every logged conversion (all width "
    "boundaries +-1, single bits, extremes, random), bytes = codec(int), by-value = by-reference, back = int (C10.conv_*). Typed maps are driven through the "
    "integer API with keys that share low bytes / low 56 bits / differ in the sign bit, in 1- and 2-bucket tables, and validated against the ideal map keyed "
    "by the integer; decoded images must contain exactly the codec's bytes.", note=TRUST)
LEVEL["C11"] = dict(technique=T, text="The contract state of the trace specification is a function map-id -> ideal map; every handle (clone, repeated lookup, lookup through a cloned "
    "database handle, with other parameters) denotes its name. Interleaved histories over 2-5 maps of mixed key types (names incl. ones that differ only "
    "behind a dot) are validated per map; the file digests of the maps not operated on are compared across the others' updates (C11.others), and the updates of one map run alone in a fresh process and directory must give the files that map has next to its neighbours (C11.solo). The design "
    "under the contract (AbyReg: buffered instances, one registry per key type, handles as clones) is model-checked: OneInstance, Aliasing, FlushDurable, "
    "Registered hold when every getter consults its registry and signatures are distinct; TLC must violate OneInstance when a getter skips the registry "
    "(MCReg_nolookup) - the class of two seeded changes; for every number of names, types, handles and instances the same invariants are PROVED inductive "
    "with TLAPS (spec/proofs/AbyRegProofs.tla). In the code, the identity of the instance behind every handle is logged (hook) and compared: a second instance behind a handle of an open map is reported as SPEC-DRIFT (design), the property itself is judged by what the handles observe.", note=TRUST + " TLAPS 1.6 (SMT back end).")
LEVEL["C13"] = dict(technique=T, text="Contract: an open is accepted iff the three files carry the format signature and the signature of the requested key type; otherwise it must "
    "fail (error or panic) and the files stay byte-identical (C13.refused, C13.unchanged). All 20 ordered pairs of key types, files of another type swapped "
    "in for each of the three files, every one of the 16 signature bytes of each file mutated (quick: 4 values each, thorough: all 255), and foreign files "
    "shorter/longer than a header, each opened in a fresh process; with one file missing or empty the open is still refused and the files that "
    "existed stay unchanged. The shared signature of u64 and vu64 is a known finding; in the model it violates TypeSafe (MCDb_d8) and creates a second "
    "buffered instance over the same files (MCReg_d8: OneInstance violated).", note=TRUST)
LEVEL["C14"] = dict(technique=T, text="AbyMap defines the bulk calls element-wise (MGetAll, MDelAll, MPutAll) and the string variants through a lossy-decoding table; random batches "
    "(0..200 keys, any order, present/absent, repeats where the property allows them) are spliced into histories on all key types and every result and "
    "the contents afterwards are compared by TLC (C14.bulk_get, C14.bulk_delete, C14.string_variant, C02.content).", note=TRUST + " Lossy decoding is exercised with 0xFF bytes only.")
LEVEL["C15"] = dict(technique=T, text="Read actions leave the contract state unchanged; for every state class (empty, emptied, dense, sparse) x 12 table sizes (incl. n < 8 and the "
    "sizes where the bitmap scan reads behind the table) a session of read-only calls only (get/includes of present and absent keys, len, bulk_get, all "
    "iterators, statistics, read_fill_buffer, flush/sync) is run between two closes and the digests and lengths of the three files must be equal (C15.bytes).", note=TRUST)
LEVEL["C18"] = dict(technique=T, text="The design layer is a function of (state, operation) by construction (no choice in any update operator; TLC explores one successor per label). "
    "Each generated history is executed twice: replica A plainly, replica B in another process and directory with read-only calls (incl. traversals of "
    "empty and sparse small tables) spliced in; the digests of the three files after close must be equal (C18.equal).", note=TRUST)
LEVEL["C12"] = dict(technique=T, text="The byte-level format is stated in TLA+ (AbyFormat: header offsets, signatures, vu64 fields, piece layout, bitmap); TLC decodes the raw bytes "
    "of small images logged with the trace itself and must agree with the harness decoder field by field (TOOL.format_*). 25 golden images (5 key types x 5 histories: deletes, "
    "large slots, non-empty free lists, tables with 1 and 4 buckets) written by a build of the pinned release "
    "4b82afd are committed with their contents; the trace starts from that contract state (event load): the current build must open each image with "
    "identical contents (C12.content), leave it byte-identical when only read, keep every other conjunct (C05/C06/C09) while it is updated further, and "
    "re-executing the stored history reproduces the released files byte for byte (reported as SPEC-DRIFT if not: more than the property demands). Placement: every decoded state of every check is judged "
    "with the placement hash re-implemented in the decoder and recomputed inside TLC (AbyHash on 16-bit limbs) for all keys <= 40 bytes; header layout and "
    "/8 scaling are what the decoder needs to find the slots (C12.header, C12.placement).", note=TRUST + " Golden images were produced once by bin/mkgolden from a worktree of the pinned commit.")
NA = {}
