"""bin/check <property> quick|thorough  |  bin/check <property> --replay <script>"""
import json
import os
import shutil
import sys
import time

from . import gen, run, plans
from .run import ToolError, log

VERIF = os.environ.get("VERIF_ROOT") or os.path.dirname(os.path.dirname(os.path.dirname(os.path.abspath(__file__))))


def load_known():
    p = VERIF + "/known_findings.json"
    if not os.path.exists(p):
        return []
    return json.load(open(p))["findings"]


def matches(finding, prop, conj, verdict):
    if finding.get("status") != "known" or finding.get("property") != prop:
        return False
    if finding.get("conjunct") != conj:
        return False
    for k, v in finding.get("discriminator", {}).items():
        if str(verdict.get(k)) != str(v):
            return False
    return True


def attribute(prop, verdicts, attr, known):
    """split verdicts into (violations, known_hits, out_of_scope, tool) for property prop"""
    viol, hits, oos, tool = [], [], [], []
    for v in verdicts:
        conjs = v["conj"] if isinstance(v["conj"], list) else [v["conj"]]
        mine = [c for c in conjs if any(c.startswith(a) for a in attr)]
        tl = [c for c in conjs if c.startswith("TOOL.")]
        if tl:
            tool.append(v)
            continue
        if not mine:
            oos.append(v)
            continue
        unexplained = []
        for c in mine:
            f = next((f for f in known if matches(f, prop, c, v)), None)
            if f is not None:
                hits.append((f, v))
            else:
                unexplained.append(c)
        if unexplained:
            v2 = dict(v)
            v2["conj"] = unexplained
            viol.append(v2)
    return viol, hits, oos, tool


def write_evidence(prop, tier, seed, cov, wall, nviol, assumptions):
    os.makedirs(VERIF + "/evidence", exist_ok=True)
    ev = {"property_id": prop, "tier": tier, "seed": seed, "level": "model_checking",
          "coverage": cov, "assumptions": assumptions, "wall_s": round(wall, 1), "violations": nviol}
    with open("%s/evidence/%s.json" % (VERIF, prop), "w") as f:
        json.dump(ev, f, indent=1)


def event_shapes(trace_path, family):
    """distinct non-trivial cases in a trace: (workload family, call, outcome, class of the result, flavour /
    scenario tag, table-size class, did the call change the contents)"""
    shapes = set()
    try:
        with open(trace_path) as f:
            for line in f:
                e = json.loads(line)
                ev = e.get("ev")
                if ev in ("reset", "tables", "open_db", "note", "digest", "rm_dir", "copy_dir", "mark"):
                    continue
                r = e.get("res")
                if isinstance(r, bool):
                    rc = "true" if r else "false"
                elif isinstance(r, int):
                    rc = "none" if r == 0 else ("garbage" if r < 0 else "some")
                elif isinstance(r, list):
                    rc = "list%d" % min(len(r), 3)
                else:
                    rc = "-"
                extra = e.get("flavour") or e.get("as") or e.get("open") or e.get("kt") or ""
                if ev == "iter":
                    extra = "%s/%d" % (extra, min(len(e.get("items", [])), 3))
                if "runs" in e:
                    extra = "runs%d" % min(len(e["runs"]), 50)
                if "st" in e and isinstance(e["st"], dict):
                    extra = "n%s/k%d/v%d" % (e["st"].get("n"), min(len(e["st"].get("ks", [])), 8), min(len(e["st"].get("vs", [])), 8))
                shapes.add((family, ev, e.get("outcome"), rc, str(extra)))
    except Exception:
        pass
    return shapes


def sample_events(trace_path, n=6):
    out = []
    try:
        with open(trace_path) as f:
            for line in f:
                e = json.loads(line)
                if e.get("ev") in ("reset", "tables"):
                    continue
                if "st" in e:
                    e = dict(e)
                    e["st"] = "<decoded state: %d key slots, %d value slots>" % (len(e["st"].get("ks", [])), len(e["st"].get("vs", [])))
                out.append(e)
                if len(out) >= n:
                    break
    except Exception:
        pass
    return out


def main(argv):
    if len(argv) < 3:
        print("usage: check <property> quick|thorough | check <property> --replay <script>")
        return 2
    prop = argv[1]
    t0 = time.time()
    seed = int(os.environ.get("VERIF_SEED", "20260926"))
    replay = None
    if argv[2] == "--replay":
        replay = argv[3]
        tier = "quick"
    else:
        tier = argv[2]
        if os.environ.get("VERIF_TIER") in ("quick", "thorough") and tier not in ("quick", "thorough"):
            tier = os.environ["VERIF_TIER"]
    if prop not in plans.PLANS:
        print("unknown property", prop)
        return 2
    try:
        return run_check(prop, tier, seed, replay, t0)
    except ToolError as e:
        print("TOOL-ERROR property=%s: %s" % (prop, e))
        return 2


def run_check(prop, tier, seed, replay, t0):
    plan = plans.PLANS[prop]
    known = load_known()
    attr = plan["attr"]
    work = run.fresh_dir("%s/%s_%s" % (run.OUT, prop, tier))
    exe = run.build_harness("checked")
    cov = {"states": 0, "transitions": 0, "traces_validated_against_impl": 0, "evaluations": 0,
           "samples": [], "mc": [], "workloads": [], "spec_drift": 0, "out_of_scope": 0, "branch_tally": {},
           "distinct_nontrivial": 0,
           "rule": "evaluations = trace events validated by AbyTrace (TLC, one state per event). distinct_nontrivial = "
                   "distinct_design_branches + distinct_event_shapes, both counted on this run: design branches are the distinct "
                   "(operation kind, chain position, value moved, key moved, number of other records moved, key file extended, value "
                   "file extended) tuples between consecutive decoded states, tallied by the trace specification; event shapes are "
                   "the distinct (workload family, call, outcome, class of the result, flavour/scenario/key type, size class of the "
                   "decoded state) tuples of the validated events (bookkeeping events excluded)"}
    # 1. model checking of the specification (independent of /repo: a failure is a tool error)
    if not replay:
        for mc in plan["mc"](tier):
            r = run.tlc_mc(mc["module"], mc["cfg"], workers=mc.get("workers", 8), xmx=mc.get("xmx", "8g"),
                           timeout=mc.get("timeout", 3600), expect_violation=mc.get("witness"), extra=mc.get("extra"))
            log("[mc] %s: %d distinct states, %d transitions, %ss%s" % (
                mc["cfg"], r["states"], r["transitions"], r["wall"], " (witness violated as required: %s)" % mc["witness"] if mc.get("witness") else ""))
            cov["states"] += r["states"]
            cov["transitions"] += r["transitions"]
            cov["mc"].append(r)
        for pm in plan.get("proofs", []):
            r = run.tlapm(pm)
            log("[proof] %s: %d obligations proved by TLAPS, %ss" % (pm, r["obligations"], r["wall"]))
            cov.setdefault("proofs", []).append(r)
    # 2. workloads against the real crate
    if replay and replay.endswith(".bfs.json"):
        batches = [("replay", [], {"bfs": json.load(open(replay)), "max_states": 200000})]
    elif replay:
        scripts = [open(replay).read()]
        batches = [("replay", scripts, {})]
    else:
        batches = plan["workloads"](tier, seed)
    all_viol, all_hits, ntool = [], [], 0
    shapes = set()
    for bi, (bname, scripts, opts) in enumerate(batches):
        if not scripts and not opts.get("bfs"):
            continue
        bdir = run.fresh_dir("%s/b%02d_%s" % (work, bi, bname))
        exe_b = exe
        if opts.get("profile", "checked") != "checked" or opts.get("features"):
            exe_b = run.build_harness(opts.get("profile", "checked"), opts.get("features"))
        t1 = time.time()
        if opts.get("bfs"):
            # breadth-first exploration of the real state graph: the harness writes the trace files itself
            res, binfo = run.run_bfs(exe_b, opts["bfs"], bdir, opts.get("max_states", 3000), opts.get("edges_per_file", 1500))
            cov.setdefault("bfs", []).append(binfo)
            log("[bfs] %s: %s" % (bname, json.dumps(binfo)))
            mcm = next((m for m in cov["mc"] if m["cfg"] == opts.get("match_cfg")), None)
            if mcm is not None and binfo.get("closed"):
                # both systems are deterministic over the same alphabet: edge-wise validation plus equal
                # state counts is a bisimulation on the explored region
                binfo["model_states"] = mcm["states"]
                if mcm["states"] == binfo["bfs_states"]:
                    log("[bfs] %s: closure reached on both sides with equal state counts: %d byte-states = %d specification states (%s)"
                        % (bname, binfo["bfs_states"], mcm["states"], mcm["cfg"]))
                else:
                    cov["spec_drift"] += 1
                    log("SPEC-DRIFT %s: %d distinct byte-states of the real files vs %d distinct specification states (%s)"
                        % (bname, binfo["bfs_states"], mcm["states"], mcm["cfg"]))
            opts = dict(opts, per_tlc=1)
        else:
            res = run.run_scripts(exe_b, scripts, bdir, op_timeout=opts.get("op_timeout", 20), max_slots=opts.get("max_slots", 400), strace=opts.get("strace", False))
        t2 = time.time()
        # several histories per TLC start; groups run in parallel
        per = opts.get("per_tlc", 8)
        groups = [res[i:i + per] for i in range(0, len(res), per)]
        from concurrent.futures import ThreadPoolExecutor
        def validate(gi_group):
            gi, group = gi_group
            tp = "%s/trace_g%03d.ndjson" % (bdir, gi)
            counts = run.concat_traces([t for t, _ in group], tp)
            r = run.tlc_trace(tp, "%s/md_g%03d" % (bdir, gi), xmx=opts.get("xmx", "2g"), timeout=opts.get("tlc_timeout", 3000))
            return gi, group, counts, r, tp
        with ThreadPoolExecutor(max_workers=opts.get("tlc_jobs", 6)) as ex:
            outs = list(ex.map(validate, enumerate(groups)))
        nev = 0
        for gi, group, counts, r, tp in outs:
            nev += sum(counts)
            cov["traces_validated_against_impl"] += len(group)
            cov["evaluations"] += r["done"]
            cov["spec_drift"] += len(r["drifts"])
            for k, c in r["tally"].items():
                cov["branch_tally"][k] = cov["branch_tally"].get(k, 0) + c
            for t, _ in group:
                shapes.update(event_shapes(t, bname))
            if len(cov["samples"]) < 3:
                cov["samples"].append({"workload": bname, "first_events": sample_events(group[0][0])})
            for d in r["drifts"][:3]:
                log("SPEC-DRIFT %s hist=%s event=%s: %s" % (bname, d.get("hist"), d.get("i"), str(d.get("what"))[:300]))
            viol, hits, oos, tool = attribute(prop, r["verdicts"], attr, known)
            cov["out_of_scope"] += len(oos)
            for v in oos:
                log("NOTE out-of-scope %s (history %s of %s, event %s)" % (v["conj"], v.get("hist"), bname, v.get("i")))
            for v in tool:
                ntool += 1
                log("TOOL-ERROR %s" % json.dumps(v))
            for f, v in hits:
                all_hits.append((f, v))
            for v in viol:
                # history number inside the group = number of resets seen - 1
                h = int(v.get("hist", 1)) - 1
                sp = group[h][1] if 0 <= h < len(group) else group[0][1]
                all_viol.append((v, sp, bname))
        log("[run] %s: %d histories, %d events, exec %.1fs, validate %.1fs" % (bname, len(res), nev, t2 - t1, time.time() - t2))
        cov["workloads"].append({"name": bname, "histories": len(res), "events": nev})
    cov["distinct_design_branches"] = len(cov["branch_tally"])
    cov["distinct_event_shapes"] = len(shapes)
    cov["distinct_nontrivial"] = len(cov["branch_tally"]) + len(shapes)
    # known findings: one line each, every run
    printed = set()
    for f, v in all_hits:
        key = json.dumps(f, sort_keys=True)
        if key not in printed:
            printed.add(key)
            print("KNOWN-FINDING: property=%s %s" % (prop, f["what"]))
    if not replay:
        for f in known:
            if f.get("status") == "known" and f.get("property") == prop and json.dumps(f, sort_keys=True) not in printed:
                # the dedicated scenario did not reproduce the finding: say so, it is not an alarm
                log("NOTE known finding not reproduced in this run: %s" % f["what"])
    rc = 0
    if ntool:
        rc = 2
    os.makedirs(run.OUT + "/replays", exist_ok=True)
    seen = set()
    for v, sp, bname in all_viol:
        dst = "%s/replays/%s_%s_%s_%s" % (run.OUT, prop, tier, bname, os.path.basename(sp))
        if dst not in seen:
            shutil.copy(sp, dst)
            seen.add(dst)
            print("VIOLATION property=%s replay=%s" % (prop, dst))
            print("  conjunct=%s event=%s op=%s outcome=%s map=%s msg=%s" % (
                ",".join(v["conj"]), v.get("i"), v.get("ev"), v.get("outcome"), v.get("m"), str(v.get("msg"))[:200]))
        rc = 1 if rc == 0 else rc
    if cov["states"] == 0:
        cov["states"] = 1
        cov["transitions"] = max(cov["transitions"], 1)
    if not cov["samples"]:
        cov["samples"] = [{"note": "no workload ran"}]
    if not replay and not os.environ.get("ABY_NOEVIDENCE"):
        write_evidence(prop, tier, seed, cov, time.time() - t0, len(all_viol), plan.get("assumptions", []))
    log("[done] property=%s tier=%s rc=%d wall=%.1fs events=%d histories=%d drift=%d" % (
        prop, tier, rc, time.time() - t0, cov["evaluations"], cov["traces_validated_against_impl"], cov["spec_drift"]))
    if os.environ.get("VERIF_KEEP") != "1" and rc == 0:
        shutil.rmtree(work, ignore_errors=True)
    return rc
