"""Seeded workload generators: each returns a Script (list of ops for `abyverif run`).
All randomness comes from the seed passed in; generators are deterministic functions of it."""
import json
import random
from . import layout

VAL_EDGES = layout.val_boundaries(6000)          # lengths around every slot-class change
SMALL_VALS = [0, 1, 3, 14, 15, 22, 23, 30, 31, 46, 47, 62, 63, 100, 126, 127, 200, 253, 254, 400, 900]
LARGE_VALS = [1017, 1018, 1019, 1020, 1021, 1022, 1100, 1145, 1146, 1147, 1500, 2000, 2040, 3000, 4090, 4093, 4094, 4095, 4096, 4097, 5000, 9000]
KEY_LENS = [0, 1, 2, 7, 8, 9, 10, 11, 12, 13, 14, 15, 16, 17, 20, 21, 22, 29, 30, 40, 60, 100, 123, 124, 125, 126, 127, 128, 250, 1000]
KTS = ["bytes", "string", "u64", "i64", "vu64"]


RAW_EVERY = 6


class Script:
    def __init__(self, idbase=0, design=True, name="h"):
        self.ops = []
        self.idbase = idbase
        self.nk = 0
        self.nv = 0
        self.pk = []
        self.pv = []
        self.keys = {}      # id -> bytes
        self.intkeys = set()   # key ids that stand for an integer (typed maps)
        self.vals = {}      # id -> len
        self.vbylen = {}
        self.meta = {"name": name}
        self.tag = None
        self.ops.append({"op": "reset", "design": design})

    # --- tables
    def key(self, ln=None, raw=None, u64=None, enc=None):
        self.nk += 1
        kid = self.idbase + self.nk
        if raw is not None:
            self.pk.append({"id": kid, "hex": raw.hex()})
            b = raw
        elif u64 is not None:
            self.pk.append({"id": kid, "u64": str(u64), "enc": enc})
            b = {"u64le": lambda x: x.to_bytes(8, 'little'), "i64le": lambda x: x.to_bytes(8, 'little'),
                 "be": lambda x: x.to_bytes(8, 'big'), "vu64": layout.vu64_encode}[enc](u64)
        else:
            self.pk.append({"id": kid, "len": ln})
            b = layout.gen_bytes(ord('k'), kid, ln)
        if b in self.keys.values():
            # not distinct (tiny lengths): give the id back
            self.pk.pop()
            self.nk -= 1
            return None
        self.keys[kid] = b
        if u64 is not None:
            self.intkeys.add(kid)
        return kid

    def key_in_bucket(self, ln, n, bucket, tries=3000000):
        """a key of length ln whose placement hash lands in `bucket` of an n-bucket table (n a power of two):
        solved directly for ln >= 8 (the hash is invertible chunk by chunk), searched for shorter keys"""
        if not hasattr(self, "_krng"):
            self._krng = random.Random(self.idbase * 7919 + 17)
        rng = self._krng
        if ln >= 8:
            for _ in range(50):
                h = (rng.getrandbits(64) & ~(n - 1)) | bucket
                b = layout.key_for_hash(ln, h, rng)
                if b not in self.keys.values():
                    self.nk += 1
                    kid = self.idbase + self.nk
                    self.pk.append({"id": kid, "hex": b.hex()})
                    self.keys[kid] = b
                    return kid
            raise RuntimeError("no distinct key found")
        for _ in range(tries):
            b = bytes(rng.getrandbits(8) for _ in range(ln))
            if layout.khash(b) % n == bucket and b not in self.keys.values():
                self.nk += 1
                kid = self.idbase + self.nk
                self.pk.append({"id": kid, "hex": b.hex()})
                self.keys[kid] = b
                return kid
        raise RuntimeError("no key found for bucket %d of %d (len %d)" % (bucket, n, ln))

    def val(self, ln):
        if ln in self.vbylen:
            return self.vbylen[ln]
        return self.newval(ln)

    def val_ascii(self, ln):
        """a value of printable ASCII bytes (survives UTF-8 lossy decoding unchanged)"""
        self.nv += 1
        vid = self.idbase + self.nv
        raw = (("%08d" % (vid % 100000000)) + "".join(chr(33 + (vid * 7 + i * 13) % 90) for i in range(max(0, ln - 8))))[:ln].encode()
        if ln < 8:
            raw = ("%d" % vid)[-ln:].encode() if ln else b""
        self.pv.append({"id": vid, "hex": raw.hex()})
        self.vals[vid] = ln
        return vid

    def val_invalid_utf8(self, ln):
        """a value with 0xFF bytes (never valid UTF-8) and its lossy decoding (each 0xFF -> U+FFFD);
        returns (raw id, lossy id); the tables say lossy[raw] = lossy id"""
        a = self.val_ascii(ln)
        raw = bytearray(bytes.fromhex(self.pv[-1]["hex"]))
        self.pv.pop()
        for i in range(2, len(raw), 5):
            raw[i] = 0xFF
        tail = [b"", b"\xc3", b"\xe3\x81", b"\xf0\x9f\x98", b"\x80"][a % 5]   # truncated sequence at the very end
        raw = bytearray(bytes(raw) + tail)
        self.vals[a] = len(raw)
        self.pv.append({"id": a, "hex": bytes(raw).hex()})
        lossy = bytes(raw[:len(raw) - len(tail)]).replace(b"\xff", b"\xef\xbf\xbd") + (b"\xef\xbf\xbd" if tail else b"")
        self.nv += 1
        b = self.idbase + self.nv
        self.pv.append({"id": b, "hex": lossy.hex(), "lossy_of": a})
        self.vals[b] = len(lossy)
        return a, b

    def val_raw(self, raw):
        """a value with exactly these bytes"""
        self.nv += 1
        vid = self.idbase + self.nv
        self.pv.append({"id": vid, "hex": bytes(raw).hex()})
        self.vals[vid] = len(raw)
        return vid

    def newval(self, ln):
        if ln < 4 and ln in self.vbylen:
            return self.vbylen[ln]      # tiny values: the universe is too small for distinct fillers
        self.nv += 1
        vid = self.idbase + self.nv
        self.pv.append({"id": vid, "len": ln})
        self.vals[vid] = ln
        self.vbylen.setdefault(ln, vid)
        return vid

    def flush_tables(self):
        if self.pk or self.pv:
            self.ops.append({"op": "tables", "keys": self.pk, "vals": self.pv})
            self.pk, self.pv = [], []

    def op(self, opname, **kw):
        self.flush_tables()
        d = {"op": opname}
        if self.tag:
            d["tag"] = self.tag
        d.update(kw)
        if opname == "decode":
            # every RAW_EVERY-th decoded state carries the raw bytes as well (small images only, decided by
            # the harness): the TLA+ format module decodes them itself (AbyFormat, TOOL.format_*)
            self.ndecode = getattr(self, "ndecode", 0) + 1
            if self.ndecode % RAW_EVERY == 1:
                d["raw"] = True
        self.ops.append(d)
        return d

    def dumps(self):
        self.flush_tables()
        return "\n".join(json.dumps(o, separators=(",", ":")) for o in self.ops) + "\n"


def params_of(rng, nb=None, bufs=False):
    p = {}
    if nb is not None:
        p["buckets"] = nb
    if bufs:
        for f in ("key_buf", "val_buf", "htx_buf"):
            p[f] = rng.choice([["Auto"], ["PerMille", 1000], ["Size", 0], ["Size", 262144], ["Size", 1048576]])
    return p


def typed_keys(s, rng, kt, count, odd=True):
    """keys for a typed map: ints at encoding boundaries and random ones"""
    enc = {"u64": "u64le", "i64": "i64le", "vu64": "vu64"}[kt]
    pool = set()
    for b in range(0, 64, 7):
        for d in (-1, 0, 1):
            x = (1 << b) + d
            if 0 <= x < (1 << 64):
                pool.add(x)
    pool.update([0, 1, 127, 128, 255, 256, (1 << 63), (1 << 64) - 1, (1 << 63) - 1])
    pool = sorted(pool)
    rng.shuffle(pool)
    out = []
    for x in pool[:count]:
        k = s.key(u64=x, enc=enc)
        if k:
            out.append(k)
    while len(out) < count:
        k = s.key(u64=rng.getrandbits(rng.choice([8, 16, 32, 64])), enc=enc)
        if k:
            out.append(k)
    if odd and count >= 6 and kt in ("u64", "i64"):
        # DbU64 / DbI64 also take keys given as bytes / text of ANY length (From<&[u8]>, From<&str>), store them
        # as they are and compare them as bytes: two of the keys are such byte strings (not the encoding of an
        # integer).  Not for vu64 maps: DbVu64 compares the DECODED numbers, so bytes that are not a vu64
        # encoding have no meaning there.
        for j, ln in enumerate(rng.sample([1, 2, 3, 5, 7, 9, 13, 20], 2)):
            k = s.key(ln)
            if k:
                out[-(j + 1)] = k
        if count >= 10:
            fam8 = bytes(rng.getrandbits(8) | 1 for _ in range(8))
            extra = [fam8 + b"1", fam8 + b"2", fam8 + b"\x00", bytes([7]), bytes([7, 0, 0])]
            for j, raw in enumerate(extra):
                k = s.key(raw=raw)
                if k:
                    out[-(3 + j)] = k
    return out


def gen_l2(seed, idbase=0, nops=120, nkeys=8, nb=("BucketsSize", 2), vals=None, klens=None, kt="bytes",
           one_bucket=False, ballast=0, stats_every=3, iter_every=6, bufs=False, name="l2"):
    """small universe, decoded storage state after every update (L2)"""
    rng = random.Random(seed)
    s = Script(idbase, design=True, name=name)
    s.meta.update(kind="l2", seed=seed, nb=list(nb), kt=kt, ballast=ballast)
    n = layout_buckets(nb)
    if kt in ("u64", "i64", "vu64"):
        keys = typed_keys(s, rng, kt, nkeys)
    else:
        klens = klens or [10, 11, 10, 0, 12, 20, 13, 127]
        keys = []
        for i in range(nkeys):
            ln = klens[i % len(klens)]
            k = s.key_in_bucket(ln, n, 0) if (one_bucket and ln >= 4) else s.key(ln)
            if k:
                keys.append(k)
    vlens = vals or rng.sample(SMALL_VALS, 4) + rng.sample(LARGE_VALS, 3)
    vids = [s.val(x) for x in vlens]
    s.op("open_db", db=0, dir="d")
    s.op("map", h=1, db=0, name="m", kt=kt, params=params_of(rng, list(nb), bufs))
    dec = dict(dir="d", name="m", flush_h=1, native=True)
    if ballast:
        # records that push the file ends above an offset-width boundary while the keys
        # operated on (and the slots they free) stay below it
        for k in keys[:3]:
            s.op("put", h=1, k=k, v=vids[0])
        bk = s.key(ballast) if kt in ("bytes", "string") else None
        bv = s.newval(ballast)
        if bk:
            s.op("put", h=1, k=bk, v=bv)
        else:
            s.op("put", h=1, k=keys[3 % len(keys)], v=bv)
        s.op("decode", **dec)
    for i in range(nops):
        r = rng.random()
        k = rng.choice(keys)
        if r < 0.45:
            s.op("put", h=1, k=k, v=rng.choice(vids))
            s.op("decode", **dec)
        elif r < 0.68:
            s.op("del", h=1, k=k)
            s.op("decode", **dec)
        elif r < 0.80:
            s.op("get", h=1, k=k)
        elif r < 0.85:
            s.op("includes", h=1, k=k)
        elif r < 0.90:
            s.op(rng.choice(["len", "is_empty"]), h=1)
        if stats_every and i % stats_every == 0:
            s.op("decode", **dec)
            s.op("stats", h=1, filling=(n <= 65536))
        if iter_every and i % iter_every == 0:
            s.op("iter", h=1, flavour=rng.choice(["iter", "iter_mut", "keys", "values", "into_iter"]))
    s.op("new_process")
    s.op("decode", dir="d", name="m", native=True)
    s.op("child_dump", dir="d", name="m", kt=kt)
    return s


def layout_buckets(nb):
    kind, x = nb[0], (nb[1] if len(nb) > 1 else 0)
    if kind == "BucketsSize":
        p = 1
        while p < x:
            p *= 2
        return p
    if kind == "Capacity":
        if x < 8:
            return 8
        y = x + x // 8
        p = 1
        while p < y:
            p *= 2
        return p
    return 16 * 1024 * 1024


def special_bytes(rng):
    """byte strings with a shape of their own: runs of 0x00 / 0x80 / 0xFF, prefixes of each other, the image of a free
    piece or of a file header, vu64-looking starts, multi-byte UTF-8 (also cut in the middle)"""
    fam = bytes(rng.getrandbits(8) for _ in range(6))
    out = [b"\x00" * 9, b"\xff" * 10, b"\x80" * 8, b"\x00" * 24 + b"\x01", b"\xff" * 40,
           fam[:2], fam[:3], fam[:4], fam, fam + b"\x00", fam + b"\x00\x00",
           bytes([2, 0]) + (208).to_bytes(8, "little") + b"\x00" * 6,            # looks like a free 16-byte piece
           b"abysdbK\x00bytes\x00\x00\x00" + b"\x00" * 16,                         # looks like a file header
           bytes([0x80, 0x01]) + b"xyz", bytes([0xC0, 0x00, 0x00]) + b"q", bytes([0xFF]) + (7).to_bytes(8, "little"),
           "gr\u00fc\u00dfe \u4e16\u754c".encode(), "\u4e16\u754c".encode()[:-1], b"\xf0\x9f\x98",
           bytes(range(256))[:64], b"\x01" * 1016, b"\x00" * 1100]
    rng.shuffle(out)
    return out


def gen_mix(seed, idbase=0, nops=220, name="mix"):
    """Every feature in ONE history (each property's check runs a few of these and reports the conjuncts that
    belong to it): 1-3 maps of random key types, small tables (collisions) with random buffer parameters, several
    handles per map (lookups with and without parameters, clones, a cloned database handle), keys that exactly
    fill their slot, the empty key, values from 0 bytes to beyond 16 KiB; single calls, typed calls through the
    integer key type, the *_string and bulk variants, put_from_iter (also fed by the map's own iterator),
    traversals of every flavour (also interleaved with calls through other handles), statistics (all at once
    and single walks), read_fill_buffer, flush / sync at map and database level followed by a snapshot that
    another process opens, sessions closed in-process or by process exit and reopened with other parameters."""
    rng = random.Random(seed)
    s = Script(idbase, design=False, name=name)
    s.meta.update(kind="mix", seed=seed)
    nmaps = rng.choice([1, 1, 2, 3])
    s.op("open_db", db=0, dir="d")
    s.op("clone_db", db=1, **{"from": 0})
    maps = []
    nh = 0
    vlens = [0, 1, 3, 14, 15, 20, 21, 100, 300, 900, 1100, 1500, 3000, 17000, 10, 11, 18, 19]     # the last four: as long as the keys
    vids = [s.val_ascii(x) for x in vlens]
    spec = special_bytes(rng)
    sv = []
    for b in spec[:8]:
        try:
            b.decode("utf-8")          # the *_string calls of this generator expect values that survive lossy decoding
            sv.append(s.val_raw(b))
        except UnicodeDecodeError:
            pass
    vids += sv
    for i in range(nmaps):
        kt = rng.choice(KTS)
        nb = rng.choice([["BucketsSize", 1], ["BucketsSize", 2], ["BucketsSize", 4], ["BucketsSize", 16], ["BucketsSize", 64], ["Capacity", 12], ["BucketsSize", 300]])
        params = {"buckets": nb}
        if rng.random() < 0.5:
            params.update(key_buf=rng.choice(BUF_PARAMS), val_buf=rng.choice(BUF_PARAMS), htx_buf=rng.choice(BUF_PARAMS))
        nh += 1
        nm = ["mx", "mx.1", "my"][i]
        s.op("map", h=nh, db=0, name=nm, kt=kt, params=params)
        if kt in ("u64", "i64", "vu64"):
            keys = typed_keys(s, rng, kt, 14)
        else:
            keys = [k for k in [s.key(ln) for ln in (0, 10, 10, 11, 11, 18, 19, 12, 26, 1, 4, 30, 100, 1000)] if k]
            for b in spec[8:14]:
                # (string maps too: a DbString key given as bytes need not be valid UTF-8 and is stored as it is)
                k = s.key(raw=b)
                if k:
                    keys.append(k)
        maps.append(dict(name=nm, kt=kt, keys=keys, hs=[nh], base=nh))
    # a second database object for ANOTHER directory in the same process, with a map of its own (same name as the first)
    other = None
    if rng.random() < 0.5:
        nh += 1
        s.op("open_db", db=2, dir="d2")
        okt = maps[0]["kt"]
        s.op("map", h=nh, db=2, name=maps[0]["name"], kt=okt, params={"buckets": ["BucketsSize", 4]})
        other = dict(name=maps[0]["name"], kt=okt, keys=maps[0]["keys"][:6], hs=[nh], dir="d2")
        s.op("flush", h=nh)                       # flush as the very first call on a map
        s.op("flush", h=nh)
    snap = 0

    def snapshot(which):
        nonlocal snap
        snap += 1
        d = "snap%d" % snap
        s.op("copy_dir", **{"from": "d", "to": d})
        for m in which:
            s.op("child_dump", dir=d, name=m["name"], kt=m["kt"], ks=m["keys"], **{"as": "C03.snapshot"})
            if rng.random() < 0.3:
                s.op("decode", dir=d, name=m["name"], native=True)
        s.op("rm_dir", dir=d)

    def typed_int(m, ks):
        return m["kt"] in ("u64", "i64", "vu64") and all(k in s.intkeys for k in ks) and rng.random() < 0.6

    for i in range(nops):
        m = rng.choice(maps)
        h = rng.choice(m["hs"])
        k = rng.choice(m["keys"])
        r = rng.random()
        if other and rng.random() < 0.08:
            # the map of the other directory: alternating with the first one
            oh = other["hs"][0]
            ok = rng.choice(other["keys"])
            s.op(rng.choice(["put", "put", "del", "get", "len"]), h=oh, **({} if False else {}))
            o = s.ops[-1]
            if o["op"] in ("put", "del", "get"):
                o["k"] = ok
            if o["op"] == "put":
                o["v"] = rng.choice(vids)
            continue
        if rng.random() < 0.05:
            # a traversal that is given up half way, and an update right after it
            s.op("iter_abandon", h=h, flavour=rng.choice(["iter", "iter_mut", "keys", "values", "into_iter"]), steps=rng.randrange(1, 6))
            s.op(rng.choice(["put", "del"]), h=h, k=k)
            if s.ops[-1]["op"] == "put":
                s.ops[-1]["v"] = rng.choice(vids)
            continue
        if rng.random() < 0.015:
            # every live key deleted in the order of insertion of the key list, then the first ones put again
            for kk in m["keys"]:
                s.op("del", h=h, k=kk)
            for kk in m["keys"][:5]:
                s.op("put", h=h, k=kk, v=rng.choice(vids))
            s.op("iter", h=h, flavour=rng.choice(FLAVOURS))
            continue
        if rng.random() < 0.04:
            # the same call twice in a row; empty arguments; all handles of a map dropped and the map asked for again
            w = rng.random()
            if w < 0.2:
                s.op("del", h=h, k=k)
                s.op("del", h=h, k=k)
            elif w < 0.4:
                v = rng.choice(vids)
                s.op("put", h=h, k=k, v=v)
                s.op("put", h=h, k=k, v=v)
            elif w < 0.55:
                x = rng.choice(["flush", "sync_data", "sync_all"])
                s.op(x, h=h)
                s.op(x, h=h)
            elif w < 0.7:
                s.op(rng.choice(["bulk_get", "bulk_del", "bulk_put"]), h=h, ks=[], vs=[])
                if s.ops[-1]["op"] != "bulk_put":
                    del s.ops[-1]["vs"]
            else:
                for hh in m["hs"]:
                    s.op("drop_h", h=hh)
                nh += 1
                s.op("map", h=nh, db=rng.choice([0, 1]), name=m["name"], kt=m["kt"])
                m["hs"] = [nh]
                s.op("dump", h=nh, ks=m["keys"])
            continue
        if r < 0.26:
            via = {"via": "int"} if typed_int(m, [k]) else {}
            s.op(rng.choice(["put", "put", "put", "put_string"]) if not via else "put", h=h, k=k, v=rng.choice(vids), **via)
        elif r < 0.38:
            via = {"via": "int"} if typed_int(m, [k]) else {}
            s.op(rng.choice(["del", "del", "del_string"]) if not via else "del", h=h, k=k, **via)
        elif r < 0.48:
            via = {"via": "int"} if typed_int(m, [k]) else {}
            s.op(rng.choice(["get", "get", "includes", "get_string"]) if not via else rng.choice(["get", "includes"]), h=h, k=k, **via)
        elif r < 0.52:
            s.op(rng.choice(["len", "is_empty"]), h=h)
        elif r < 0.60:
            ks = list(dict.fromkeys(rng.choice(m["keys"]) for _ in range(rng.randrange(1, 7))))
            via = {"via": "int"} if typed_int(m, ks) else {}
            w = rng.random()
            if w < 0.35:
                s.op(rng.choice(["bulk_get", "bulk_get_string"]), h=h, ks=ks if rng.random() < 0.7 else ks + [ks[0]], **via)
            elif w < 0.55:
                s.op(rng.choice(["bulk_del", "bulk_del_string"]), h=h, ks=ks, **via)
            elif w < 0.8:
                s.op(rng.choice(["bulk_put", "bulk_put_string"]), h=h, ks=ks, vs=[rng.choice(vids) for _ in ks], **via)
            elif w < 0.93:
                s.op("put_from_iter", h=h, ks=ks + [ks[0]], vs=[rng.choice(vids) for _ in range(len(ks) + 1)], **via)
            else:
                s.op("put_from_iter_self", h=h, src=rng.choice(m["hs"]), flavour=rng.choice(["iter", "iter_mut", "into_iter"]))
        elif r < 0.68:
            if len(m["hs"]) > 1 and rng.random() < 0.5:
                s.op("iter", h=h, flavour=rng.choice(FLAVOURS), interleave=rng.sample(["len", "is_empty", "new_iter", "get", "includes"], rng.randrange(1, 4)), probe=m["keys"][:5])
            else:
                s.op("iter", h=h, flavour=rng.choice(FLAVOURS))
        elif r < 0.73:
            if rng.random() < 0.5:
                s.op("stats", h=h, filling=True)
            else:
                s.op("stats", h=h, only=rng.choice(["kfree", "vfree", "ksize", "vsize", "klen", "vlen", "kcount", "filling"]))
        elif r < 0.76:
            s.op("read_fill_buffer", h=h)
        elif r < 0.84:
            if rng.random() < 0.7:
                s.op(rng.choice(["flush", "sync_all", "sync_data"]), h=h)
                snapshot([m])
            else:
                s.op(rng.choice(["db_sync_all", "db_sync_data"]), db=rng.choice([0, 1]))
                snapshot(maps)
        elif r < 0.89:
            # another handle of the same map (or one handle less)
            if len(m["hs"]) < 4 and rng.random() < 0.75:
                nh += 1
                how = rng.random()
                if how < 0.3:
                    s.op("clone_h", h=nh, **{"from": h})
                elif how < 0.55:
                    s.op("map", h=nh, db=0, name=m["name"], kt=m["kt"])
                elif how < 0.8:
                    s.op("map", h=nh, db=rng.choice([0, 1]), name=m["name"], kt=m["kt"], params=rng.choice(REOPEN_PARAMS[1:]))
                else:
                    s.op("map", h=nh, db=1, name=m["name"], kt=m["kt"])
                m["hs"].append(nh)
            elif len(m["hs"]) > 1:
                s.op("drop_h", h=m["hs"].pop(rng.randrange(len(m["hs"]))))
        elif r < 0.94:
            s.op("dump", h=h, ks=m["keys"])
        else:
            # the session ends (sometimes right after an update, sometimes after a sync); the next one opens
            # every map with parameters of its own
            if rng.random() < 0.5:
                s.op(rng.choice(["put", "del"]), h=h, k=k, **({"v": rng.choice(vids)} if False else {}))
                if s.ops[-1]["op"] == "put":
                    s.ops[-1]["v"] = rng.choice(vids)
            for mm in maps:
                s.op("dump", h=rng.choice(mm["hs"]), ks=mm["keys"])
            if rng.random() < 0.3:
                # every database handle is dropped first; the map handles outlive them and keep working
                s.op("drop_db", db=1)
                s.op("drop_db", db=0)
                for mm in maps:
                    hh = rng.choice(mm["hs"])
                    kk = rng.choice(mm["keys"])
                    s.op("put", h=hh, k=kk, v=rng.choice(vids))
                    s.op("get", h=hh, k=kk)
                    s.op("len", h=hh)
            s.op(rng.choice(["drop_all", "new_process"]))
            if other:
                s.op("decode", dir="d2", name=other["name"], native=True)
                nh += 1
                s.op("open_db", db=2, dir="d2")
                s.op("map", h=nh, db=2, name=other["name"], kt=other["kt"])
                other["hs"] = [nh]
                s.op("iter", h=nh, flavour=rng.choice(FLAVOURS))     # iteration right after open
                s.op("dump", h=nh, ks=other["keys"])
            for mm in maps:
                s.op("decode", dir="d", name=mm["name"], native=True)
            s.op("open_db", db=0, dir="d")
            s.op("clone_db", db=1, **{"from": 0})
            for mm in maps:
                nh += 1
                prm = rng.choice(REOPEN_PARAMS)
                if prm:
                    s.op("map", h=nh, db=0, name=mm["name"], kt=mm["kt"], params=prm)
                else:
                    s.op("map", h=nh, db=0, name=mm["name"], kt=mm["kt"])
                mm["hs"] = [nh]
                s.op("dump", h=nh, ks=mm["keys"])
                s.op("iter", h=nh, flavour=rng.choice(FLAVOURS))
    for mm in maps:
        s.op("dump", h=rng.choice(mm["hs"]), ks=mm["keys"])
    if other:
        s.op("dump", h=other["hs"][0], ks=other["keys"])
    s.op("new_process")
    for mm in maps:
        s.op("decode", dir="d", name=mm["name"], native=True)
        s.op("child_dump", dir="d", name=mm["name"], kt=mm["kt"], ks=mm["keys"])
    if other:
        s.op("child_dump", dir="d2", name=other["name"], kt=other["kt"], ks=other["keys"])
    return s


def gen_l1(seed, idbase=0, nops=3000, nkeys=300, nb=("BucketsSize", 64), kt="bytes", big=2, reopen_every=700,
           bufs=False, name="l1", final_decode=True, huge=False):
    """long history, contract-level validation of every call (L1), snapshots at every close (L3)"""
    rng = random.Random(seed)
    s = Script(idbase, design=False, name=name)
    s.meta.update(kind="l1", seed=seed, nb=list(nb), kt=kt)
    if kt in ("u64", "i64", "vu64"):
        keys = typed_keys(s, rng, kt, nkeys)
    else:
        keys = []
        while len(keys) < nkeys:
            ln = rng.choice(KEY_LENS) if rng.random() < 0.8 else rng.randrange(0, 300)
            k = s.key(ln)
            if k:
                keys.append(k)
        for _ in range(big):
            k = s.key(rng.choice([4000, 16384, 65535, 65536]))
            keys.append(k)
    pool = sorted(set(rng.sample(VAL_EDGES, min(40, len(VAL_EDGES))) + SMALL_VALS + LARGE_VALS))
    for _ in range(big):
        pool.append(rng.choice([16383, 16384, 131071, 131072, 131073, 300000]))
    pool.append(rng.choice([(1 << 21) + 5, 3 << 20]))          # >= 2 MiB: the length field needs 4 bytes
    if huge:
        pool.append(rng.choice([1 << 20, (1 << 24) - 9, 1 << 24]))
    vids = [s.newval(x) for x in pool] + [s.newval(rng.choice(pool[:40])) for _ in range(30)]
    params = params_of(rng, list(nb), bufs)
    s.op("open_db", db=0, dir="d")
    s.op("map", h=1, db=0, name="m", kt=kt, params=params)
    hot = keys[:max(4, nkeys // 10)]
    for i in range(nops):
        r = rng.random()
        k = rng.choice(hot) if rng.random() < 0.5 else rng.choice(keys)
        if r < 0.40:
            # the largest value (up to 16 MiB with huge=True) only a few times per history
            v = rng.choice(vids[:len(pool) - 1] + vids[len(pool):]) if rng.random() < (1 - 30.0 / max(nops, 1000)) else vids[len(pool) - 1]
            s.op("put", h=1, k=k, v=v)
        elif r < 0.62:
            s.op("del", h=1, k=k)
        elif r < 0.85:
            s.op("get", h=1, k=k)
        elif r < 0.90:
            s.op("includes", h=1, k=k)
        elif r < 0.97:
            s.op(rng.choice(["len", "is_empty"]), h=1)
        elif r < 0.985:
            s.op("iter", h=1, flavour=rng.choice(["iter", "iter_mut", "keys", "values", "into_iter"]))
        else:
            s.op(rng.choice(["flush", "sync_data", "sync_all"]), h=1)
        if reopen_every and i % reopen_every == reopen_every - 1:
            s.op("dump", h=1)
            s.op(rng.choice(["drop_all", "new_process"]))
            s.op("decode", dir="d", name="m", native=True)
            s.op("open_db", db=0, dir="d")
            s.op("map", h=1, db=0, name="m", kt=kt, params=params_of(rng, None, bufs))
            s.op("dump", h=1)
    s.op("dump", h=1)
    s.op("new_process")
    if final_decode:
        s.op("decode", dir="d", name="m", native=True)
    s.op("child_dump", dir="d", name="m", kt=kt)
    return s


def gen_reloc(seed, idbase=0, nops=150, width=16384, nkeys=5, name="reloc", kt="bytes", snap=False, iter_every=0, kballast=1):
    """C08: colliding keys whose records exactly fill their slots, free slots below and file ends
    above an offset-width boundary, so that overwrites move value records, key records and the
    predecessors' key records (relink cascades); decoded state after every update."""
    rng = random.Random(seed)
    s = Script(idbase, design=True, name=name)
    s.meta.update(kind="reloc", seed=seed, width=width)
    n = 2
    full = [10, 18, 26, 42, 58]           # key lengths whose record exactly fills its slot (small offsets)
    slack = [11, 12, 20]
    lens = [rng.choice(full) if rng.random() < 0.8 else rng.choice(slack) for _ in range(nkeys)]
    lens[0] = 10
    lens[1] = 10
    keys = [s.key_in_bucket(ln, n, 0) for ln in lens]
    vlens = [3, 14, 15, 40, 100, 300, 1100, 2000]
    vids = [s.val(x) for x in vlens]
    s.op("open_db", db=0, dir="d")
    s.op("map", h=1, db=0, name="m", kt=kt, params={"buckets": ["BucketsSize", n]})
    dec = dict(dir="d", name="m", flush_h=1, native=True)
    # low region: the colliding records and a few slots freed again
    for k in keys:
        s.op("put", h=1, k=k, v=vids[rng.randrange(0, 3)])
    extra = [s.key_in_bucket(10, n, 0) for _ in range(2)]
    for k in extra:
        s.op("put", h=1, k=k, v=vids[0])
    for k in extra:
        s.op("del", h=1, k=k)
    # ballast in the other bucket: both file ends move above the width boundary
    # (keys are at most 64 KiB: above that only the VALUE file is pushed over the boundary)
    bk = s.key_in_bucket(min(width - 80, 60000), n, 1)
    bv = s.newval(width - 80)
    s.op("put", h=1, k=bk, v=bv)
    # kballast > 1: the KEY file passes 128 KiB as well (links to records up there are 3 bytes wide)
    bks = [bk]
    for _ in range(kballast - 1):
        bks.append(s.key_in_bucket(60000, n, 1))
        s.op("put", h=1, k=bks[-1], v=vids[0])
    s.op("decode", **dec)
    allk = keys + extra
    order = list(reversed(keys))            # chain of bucket 0, head first (a new key becomes the head)
    for i in range(nops):
        r = rng.random()
        k = rng.choice(allk)
        if rng.random() < 0.06 and order:
            # read-modify-write: the value of a key is read, replaced by a longer one (it moves), a value of the OLD length
            # goes to another key (it re-uses the vacated slot) and is read back at once - a remembered read is stale by then
            kk = rng.choice(order)
            s.op("put", h=1, k=kk, v=vids[1])
            s.op("decode", **dec) if not snap else None
            s.op("get", h=1, k=kk)
            s.op("put", h=1, k=kk, v=vids[5])
            tgt = next((x for x in allk if x not in order), None) or rng.choice([x for x in order if x != kk] or [kk])
            s.op("put", h=1, k=tgt, v=vids[2])
            if tgt not in order:
                order.insert(0, tgt)
            s.op("get", h=1, k=tgt)
            s.op("get", h=1, k=kk)
            s.op("decode", **dec) if not snap else None
            continue
        if order and rng.random() < 0.08:
            # a lookup of the chain head, then new keys in front of it, then the looked-up key is deleted or
            # overwritten by a relocating value: whatever the lookup remembered is stale by then
            hk = order[0]
            s.op("includes", h=1, k=hk)
            for nk in [x for x in allk if x not in order][:rng.randrange(1, 3)]:
                s.op("put", h=1, k=nk, v=vids[0])
                order.insert(0, nk)
                s.op("decode", **dec) if not snap else None
            k = hk
            r = rng.choice([0.7, 0.1])
        elif r < 0.90 and rng.random() < 0.3:
            s.op("includes", h=1, k=k)          # the key about to be updated was looked up just before
        if r < 0.62:
            s.op("put", h=1, k=k, v=rng.choice(vids))
            if k not in order:
                order.insert(0, k)
        elif r < 0.90:
            s.op("del", h=1, k=k)
            if k in order:
                order.remove(k)
        elif r < 0.95:
            s.op("get", h=1, k=rng.choice(allk))
            continue
        else:
            # lookups that a cache might remember, and a traversal of the relinked chains
            s.op("includes", h=1, k=rng.choice(allk))
            if rng.random() < 0.5:
                s.op("iter", h=1, flavour=rng.choice(FLAVOURS))
            continue
        if snap:
            # C03: flush only (no decode, which would flush as well), then the directory as a crash would leave it
            s.op(rng.choice(["flush", "flush", "sync_data"]), h=1)
            s.op("copy_dir", **{"from": "d", "to": "snap"})
            s.op("child_dump", dir="snap", name="m", kt=kt, ks=allk + bks, **{"as": "C03.snapshot"})
            s.op("decode", dir="snap", name="m", native=True)
            s.op("rm_dir", dir="snap")
        else:
            s.op("decode", **dec)
        if iter_every and i % iter_every == 0:
            s.op("iter", h=1, flavour=rng.choice(FLAVOURS))
        if i % 10 == 9:
            s.op("dump", h=1)
            s.op("stats", h=1)
    s.op("new_process")
    s.op("decode", dir="d", name="m", native=True)
    s.op("child_dump", dir="d", name="m", kt="bytes")
    return s


FLAVOURS = ["iter", "iter_mut", "keys", "values", "into_iter", "ref_into_iter"]


def gen_iter(seed, idbase=0, nb=("BucketsSize", 128), kt="bytes", rounds=4, name="iter"):
    """C04: occupancy patterns the bitmap scan treats as distinct cases (bucket n-9, n-8, n-1, first and
    last bucket of 8-byte strides), random insert/overwrite/delete in between, emptied-again maps;
    all iterator flavours after every phase."""
    rng = random.Random(seed)
    s = Script(idbase, design=True, name=name)
    n = layout_buckets(nb)
    s.meta.update(kind="iter", seed=seed, nb=list(nb), n=n)
    s.op("open_db", db=0, dir="d")
    s.op("map", h=1, db=0, name="m", kt=kt, params={"buckets": list(nb)})
    dec = dict(dir="d", name="m", flush_h=1, native=True)
    vids = [s.val(x) for x in (3, 20, 100, 0)]

    def iters(k=3):
        fl = FLAVOURS if k >= len(FLAVOURS) else rng.sample(FLAVOURS, k)
        for f in fl:
            if rng.random() < 0.4:
                # read-only calls on the same map between the steps of the live traversal
                s.op("iter", h=1, flavour=f, interleave=rng.sample(["len", "is_empty", "new_iter", "get", "includes"], rng.randrange(1, 4)),
                     probe=live[:4])
            else:
                s.op("iter", h=1, flavour=f)

    live = []
    iters(6)                                            # fresh, empty
    special = {0, n - 1, n - 8, n - 9, n - 10, n - 64, n - 65, 7, 8, 63, 64, 65, 71, 72, 119, 120, 127, 128, n // 2, n // 2 - 1}
    special = sorted(b for b in special if 0 <= b < n)
    # every special bucket once as the ONLY occupied one (the scan enters its group from an empty table)
    v0 = vids[0]
    for b in special:
        k = s.key_in_bucket(8 if n > 4096 else rng.choice([4, 8, 10]), n, b)
        s.op("put", h=1, k=k, v=v0)
        s.op("iter", h=1, flavour=rng.choice(FLAVOURS))
        s.op("del", h=1, k=k)
    for r in range(rounds):
        targets = rng.sample(special, min(len(special), rng.randrange(1, 5))) + [rng.randrange(n) for _ in range(rng.randrange(0, 4))]
        for b in targets:
            for _ in range(rng.randrange(1, 3)):        # chains of one or two
                k = s.key_in_bucket(rng.choice([8, 10, 12, 17]) if n > 4096 else rng.choice([4, 8, 10, 12]), n, b)
                s.op("put", h=1, k=k, v=rng.choice(vids))
                live.append(k)
        s.op("decode", **dec)
        s.op("len", h=1)
        iters(6 if r == 0 else 3)
        # overwrite some, delete some (oldest of a chain included)
        for k in rng.sample(live, min(len(live), 3)):
            s.op("put", h=1, k=k, v=rng.choice(vids))
        dels = rng.sample(live, rng.randrange(0, len(live) + 1) if r % 2 else min(2, len(live)))
        for k in dels:
            s.op("del", h=1, k=k)
            live.remove(k)
        s.op("decode", **dec)
        iters(3)
    for k in list(live):                                 # emptied again
        s.op("del", h=1, k=k)
    live = []
    s.op("decode", **dec)
    iters(6)
    k = s.key_in_bucket(8, n, special[-1])
    s.op("put", h=1, k=k, v=vids[0])
    iters(2)
    s.op("new_process")
    s.op("open_db", db=0, dir="d")
    s.op("map", h=1, db=0, name="m", kt=kt)
    iters(2)
    return s


def _mk_keys(s, rng, kt, count, lens=None):
    if kt in ("u64", "i64", "vu64"):
        return typed_keys(s, rng, kt, count)
    out = []
    if count >= 8 and not lens:
        k = s.key(0)                      # the empty key is a key like any other
        if k:
            out.append(k)
    while len(out) < count:
        k = s.key(rng.choice(lens or [1, 4, 8, 10, 11, 16, 30, 100]))
        if k:
            out.append(k)
    return out


REOPEN_PARAMS = [None, {"buckets": ["BucketsSize", 1]}, {"buckets": ["BucketsSize", 1024]}, {"buckets": ["Capacity", 4]},
                 {"buckets": ["Capacity", 1000]}, {"buckets": ["Default"]},
                 {"buckets": ["BucketsSize", 16], "key_buf": ["Size", 0], "val_buf": ["Size", 262144], "htx_buf": ["Auto"]},
                 {"key_buf": ["Auto"], "val_buf": ["PerMille", 1000], "htx_buf": ["Size", 1048576]}]


def gen_reopen(seed, idbase=0, nops=300, nkeys=40, nb=("BucketsSize", 64), kt="bytes", closes=8, name="reopen"):
    """C02: clean close and reopen at random points (also right after deletes / overwrites), with
    parameters drawn independently of the creation parameters, in-process and in a new process."""
    rng = random.Random(seed)
    s = Script(idbase, design=False, name=name)
    s.meta.update(kind="reopen", seed=seed, nb=list(nb), kt=kt)
    keys = _mk_keys(s, rng, kt, nkeys)
    vids = [s.newval(x) for x in rng.sample(SMALL_VALS, 6) + rng.sample(LARGE_VALS, 3) + [16384, 140000]]
    s.op("open_db", db=0, dir="d")
    mname = rng.choice(["m", "m.2023", "stock.a"])
    other = {"m": "m.bak", "m.2023": "m.2024", "stock.a": "stock.b"}[mname]
    okeys = _mk_keys(s, rng, kt, 5)
    s.op("map", h=1, db=0, name=mname, kt=kt, params={"buckets": list(nb)})
    close_at = sorted(rng.sample(range(5, nops), closes))
    hs = [1]

    def second_handle():
        # the same map asked for a second time in the same database (plain, with other parameters, or through
        # a clone of the database handle): it must alias the first one, updates go through both until the close
        how = rng.random()
        if how < 0.4:
            s.op("map", h=3, db=0, name=mname, kt=kt, params=rng.choice(REOPEN_PARAMS))
        elif how < 0.7:
            s.op("map", h=3, db=0, name=mname, kt=kt)
        else:
            s.op("clone_db", db=1, **{"from": 0})
            s.op("map", h=3, db=1, name=mname, kt=kt, params=rng.choice(REOPEN_PARAMS))
        return [1, 3]

    for i in range(nops):
        r = rng.random()
        k = rng.choice(keys)
        if i % 37 == 20:
            # a clone of the database object is made and dropped again (passed by value to a helper, say);
            # then the map is asked for by name once more and updated through that handle too
            s.op("clone_db", db=3, **{"from": 0})
            s.op("drop_db", db=3)
            s.op("map", h=4, db=0, name=mname, kt=kt)
            s.op("put", h=4, k=rng.choice(keys), v=rng.choice(vids))
            s.op("drop_h", h=4)
        if i == 12 and seed % 2 == 0:
            hs = second_handle()
        if r < 0.5:
            s.op("put", h=rng.choice(hs), k=k, v=rng.choice(vids))
        elif r < 0.75:
            s.op("del", h=rng.choice(hs), k=k)
        elif r < 0.85:
            s.op("get", h=rng.choice(hs), k=k)
        elif r < 0.89:
            s.op("iter", h=rng.choice(hs), flavour=rng.choice(FLAVOURS))
        elif r < 0.94:
            s.op(rng.choice(["flush", "sync_all", "sync_data", "db_sync_all", "db_sync_data"]), **({"h": 1} if True else {}))
            if s.ops[-1]["op"].startswith("db_"):
                del s.ops[-1]["h"]
                s.ops[-1]["db"] = 0
        else:
            s.op("len", h=1)
        if i in close_at:
            if rng.random() < 0.4:
                # count-changing updates, a sync, and then nothing more before the close
                s.op("put", h=1, k=rng.choice(keys), v=rng.choice(vids))
                s.op("del", h=1, k=rng.choice(keys))
                s.op(rng.choice(["sync_all", "sync_data", "flush"]), h=1)
            # an update right before the close half of the time
            if rng.random() < 0.5:
                s.op(rng.choice(["put", "del"]), h=1, k=rng.choice(keys), **({} if False else {}))
                if s.ops[-1]["op"] == "put":
                    s.ops[-1]["v"] = rng.choice(vids)
            how = rng.choice(["drop_all", "new_process"])
            s.op(how)
            s.op("decode", dir="d", name=mname, native=True)
            if rng.random() < 0.5:
                # a session that only touches ANOTHER map of the same directory
                s.op("open_db", db=0, dir="d")
                s.op("map", h=2, db=0, name=other, kt=kt, params={"buckets": ["BucketsSize", 8]})
                for k in rng.sample(okeys, 3):
                    s.op("put", h=2, k=k, v=rng.choice(vids))
                s.op("dump", h=2, ks=okeys)
                s.op(rng.choice(["drop_all", "new_process"]))
            if rng.random() < 0.4:
                s.op("child_dump", dir="d", name=mname, kt=kt, params=rng.choice(REOPEN_PARAMS), ks=keys)
            s.op("open_db", db=0, dir="d")
            s.op("map", h=1, db=0, name=mname, kt=kt, params=rng.choice(REOPEN_PARAMS))
            s.op("dump", h=1, ks=keys)
            s.op("iter", h=1, flavour=rng.choice(FLAVOURS))
            hs = second_handle() if rng.random() < 0.5 else [1]
    s.op("new_process")
    s.op("decode", dir="d", name=mname, native=True)
    s.op("child_dump", dir="d", name=mname, kt=kt, params=rng.choice(REOPEN_PARAMS), ks=keys)
    return s


def gen_sync(seed, idbase=0, nops=160, nmaps=2, kill=False, name="sync"):
    """C03: every successful flush / sync_data / sync_all (map level and database level) is a crash
    point: the directory is copied while all handles are alive and the copy is opened in another
    process; with kill=True the writer is SIGKILLed right after a sync returned."""
    rng = random.Random(seed)
    s = Script(idbase, design=False, name=name)
    s.meta.update(kind="sync", seed=seed, kill=kill)
    kts = [rng.choice(KTS) for _ in range(nmaps)]
    s.op("open_db", db=0, dir="d")
    maps = []
    for i, kt in enumerate(kts):
        h = i + 1
        nb = rng.choice([["BucketsSize", 8], ["BucketsSize", 64], ["Capacity", 100], ["BucketsSize", 1]])
        s.op("map", h=h, db=0, name="m%d" % i, kt=kt, params={"buckets": nb})
        keys = _mk_keys(s, rng, kt, 12)
        maps.append(dict(h=h, name="m%d" % i, kt=kt, keys=keys))
    # values in two lengths per size class, so that overwrites often stay in place
    vids = [s.newval(x) for x in (3, 5, 9, 20, 21, 100, 101, 1100, 1101, 5000, 0)]
    snap = 0

    def snapshot(which):
        nonlocal snap
        snap += 1
        d = "snap%d" % snap
        s.op("copy_dir", **{"from": "d", "to": d})
        for m in which:
            s.op("child_dump", dir=d, name=m["name"], kt=m["kt"], ks=m["keys"], **{"as": "C03.snapshot"})
        s.op("rm_dir", dir=d)

    # a map that was only created: flush, snapshot -> valid empty map
    m0 = rng.choice(maps)
    if rng.random() < 0.5:
        s.op("read_fill_buffer", h=m0["h"])
    s.op(rng.choice(["flush", "sync_all", "sync_data"]), h=m0["h"])
    snapshot([m0])
    kill_at = rng.randrange(nops // 2, nops) if kill else -1
    for i in range(nops):
        m = rng.choice(maps)
        r = rng.random()
        k = rng.choice(m["keys"])
        if i == 20 and seed % 2 == 1 and not kill:
            # every map is asked for a second time (plain and with parameters): the updates then go through the
            # NEWER handle or the older one at random; a sync through either (or the database) covers both
            for mm in maps:
                if rng.random() < 0.5:
                    s.op("map", h=mm["h"] + 10, db=0, name=mm["name"], kt=mm["kt"])
                else:
                    s.op("map", h=mm["h"] + 10, db=0, name=mm["name"], kt=mm["kt"], params={"buckets": ["BucketsSize", 4]})
                mm["h2"] = mm["h"] + 10
        if i % 29 == 11:
            # a clone of the database object is made and dropped again: the database-level syncs below still cover every map
            s.op("clone_db", db=3, **{"from": 0})
            s.op("drop_db", db=3)
        wh = rng.choice([m["h"], m.get("h2", m["h"])])
        if r < 0.55:
            s.op("put", h=wh, k=k, v=rng.choice(vids))
        elif r < 0.72:
            s.op("del", h=wh, k=k)
        elif r < 0.80:
            s.op("get", h=wh, k=k)
        else:
            if rng.random() < 0.35:
                # read-only calls between the last update and the flush must not make the flush think it has nothing to do
                s.op(rng.choice(["read_fill_buffer", "read_fill_buffer", "len", "iter"]), h=wh, **({"flavour": "iter"} if False else {}))
                if s.ops[-1]["op"] == "iter":
                    s.ops[-1]["flavour"] = rng.choice(FLAVOURS)
            if rng.random() < 0.7:
                s.op(rng.choice(["flush", "sync_all", "sync_data"]), h=m["h"])
                snapshot([m])
            else:
                s.op(rng.choice(["db_sync_all", "db_sync_data"]), db=0)
                snapshot(maps)
            # often an in-place overwrite / delete and an immediate second sync
            if rng.random() < 0.6:
                k2 = rng.choice(m["keys"])
                s.op(rng.choice(["put", "put", "del"]), h=m["h"], k=k2)
                if s.ops[-1]["op"] == "put":
                    s.ops[-1]["v"] = rng.choice(vids)
                s.op(rng.choice(["flush", "sync_all", "sync_data"]), h=m["h"])
                snapshot([m])
        if i == kill_at:
            s.op(rng.choice(["db_sync_all", "db_sync_data"]), db=0)
            s.op("kill_here")
            s.op("open_db", db=0, dir="d")
            for mm in maps:
                s.op("map", h=mm["h"], db=0, name=mm["name"], kt=mm["kt"], **{"as": "C03.snapshot"})
                s.op("dump", h=mm["h"], ks=mm["keys"], **{"as": "C03.snapshot"})
    s.op("new_process")
    for mm in maps:
        s.op("decode", dir="d", name=mm["name"], native=True)
        s.op("child_dump", dir="d", name=mm["name"], kt=mm["kt"], ks=mm["keys"])
    return s


def gen_sync_scale(seed, idbase=0, segs=(1024, 512, 2048, 1000), kt="u64", name="syncscale"):
    """C03 at scale: exactly 2^k (and other round numbers of) effective updates between two flushes / syncs, each
    followed by a snapshot that another process opens - counters, thresholds and batch sizes inside the crate
    must not matter"""
    rng = random.Random(seed)
    s = Script(idbase, design=False, name=name)
    s.meta.update(kind="syncscale", seed=seed)
    keys = _mk_keys(s, rng, kt, 300)
    vids = [s.newval(x) for x in (3, 5, 20, 21)]
    s.op("open_db", db=0, dir="d")
    s.op("map", h=1, db=0, name="m", kt=kt, params={"buckets": ["BucketsSize", 256]})
    live = set()
    for si, seg in enumerate(segs):
        n = 0
        while n < seg:
            k = rng.choice(keys)
            if k in live and rng.random() < 0.3:
                s.op("del", h=1, k=k)          # a delete of a live key: an effective update
                live.discard(k)
            else:
                s.op("put", h=1, k=k, v=rng.choice(vids))
                live.add(k)
            n += 1
        s.op(["flush", "flush", "sync_data", "flush"][si % 4], h=1)
        d = "snap%d" % si
        s.op("copy_dir", **{"from": "d", "to": d})
        s.op("child_dump", dir=d, name="m", kt=kt, ks=keys, **{"as": "C03.snapshot"})
        s.op("rm_dir", dir=d)
    s.op("dump", h=1, ks=keys)
    s.op("new_process")
    s.op("child_dump", dir="d", name="m", kt=kt, ks=keys)
    return s


def gen_longchain(seed, idbase=0, nkeys=4500, name="longchain"):
    """C06 at scale: ONE bucket chain of thousands of entries; every key is put again with a value of the same size
    (in place), then half of them are deleted and put again: len and the file ends must not move"""
    rng = random.Random(seed)
    s = Script(idbase, design=False, name=name)
    keys = []
    while len(keys) < nkeys:
        k = s.key(rng.choice([9, 10, 12]))
        if k:
            keys.append(k)
    v1, v2 = s.newval(5), s.newval(6)
    s.op("open_db", db=0, dir="d")
    s.op("map", h=1, db=0, name="m", kt="bytes", params={"buckets": ["BucketsSize", 1]})
    for k in keys:
        s.op("put", h=1, k=k, v=v1)
    s.op("len", h=1)
    s.op("flush", h=1)
    s.op("digest", dir="d", name="m", tag="len0")
    for k in keys[::3]:
        s.op("put", h=1, k=k, v=v2)
    s.op("len", h=1)
    # every one of these puts found its key and wrote a value of the same slot size in place: no file got longer
    s.op("flush", h=1)
    s.op("digest", dir="d", name="m", tag="len1")
    s.op("note", conj="C06.bounded", same=["len0", "len1"], lens=True)
    for k in keys[:6] + keys[-6:] + rng.sample(keys, 20):
        s.op("get", h=1, k=k)
    for k in keys[1::50]:
        s.op("del", h=1, k=k)
    for k in keys[1::50]:
        s.op("put", h=1, k=k, v=v1)
    s.op("len", h=1)
    s.op("stats", h=1, only="kfree")
    s.op("stats", h=1, only="vfree")
    s.op("stats", h=1, only="klen")
    s.op("new_process")
    s.op("decode", dir="d", name="m", native=True)
    return s


def gen_fault(seed, idbase=0, shape="val", threshold=0, syncop="flush", name="fault", second=None, retry=False):
    """C16: the OS refuses writes beyond `threshold` bytes (RLIMIT_FSIZE) during one flush/sync; full
    buffering, so only the flush writes.  Then: reads, lift, flush again, snapshot."""
    rng = random.Random(seed)
    s = Script(idbase, design=False, name=name)
    s.meta.update(kind="fault", seed=seed, shape=shape, threshold=threshold, syncop=syncop)
    full = {"key_buf": ["PerMille", 1000], "val_buf": ["PerMille", 1000], "htx_buf": ["PerMille", 1000]}
    if shape == "val":
        nb, klens, vlens, n1, n2 = ["BucketsSize", 16], [8, 10, 12], [3000, 5000, 20000, 70000], 6, 14
    elif shape == "key":
        nb, klens, vlens, n1, n2 = ["BucketsSize", 16], [3000, 9000, 20000, 60000], [3, 10, 20], 6, 14
    else:
        nb, klens, vlens, n1, n2 = ["BucketsSize", 32768], [8, 10, 12], [3, 10, 20, 100], 8, 24
    params = dict(full, buckets=nb)
    n = layout_buckets(nb)
    s.op("open_db", db=0, dir="d")
    s.op("map", h=1, db=0, name="m", kt="bytes", params=params)
    if second:
        # a small second map (visited before or after "m" by the database-level sync, depending on its
        # key type and name) that CAN be written: its success must not hide the failure of "m"
        s.op("map", h=2, db=0, name=second[0], kt=second[1], params=dict(full, buckets=["BucketsSize", 8]))
        k2 = _mk_keys(s, rng, second[1], 3)
        v2 = s.newval(5)
        for k in k2:
            s.op("put", h=2, k=k, v=v2)
    keys = []
    for _ in range(n1 + n2):
        k = s.key(rng.choice(klens))
        if k:
            keys.append(k)
    vids = [s.newval(x) for x in vlens] + [s.newval(x + 1) for x in vlens]
    for k in keys[:n1]:
        s.op("put", h=1, k=k, v=rng.choice(vids))
    s.op("flush", h=1)
    for k in keys[n1:]:
        s.op("put", h=1, k=k, v=rng.choice(vids))
    for k in rng.sample(keys[:n1], 3):
        s.op(rng.choice(["put", "del"]), h=1, k=k)
        if s.ops[-1]["op"] == "put":
            s.ops[-1]["v"] = rng.choice(vids)
    s.op("rlimit_fsize", bytes=threshold)
    if syncop.startswith("db_"):
        s.op(syncop, db=0)
    else:
        s.op(syncop, h=1)
    if seed % 3 == 0 or retry:
        # the condition persists: more updates (in place and new), another attempt, then the lift
        for k in rng.sample(keys, 3):
            s.op("put", h=1, k=k, v=rng.choice(vids))
        s.op("get", h=1, k=rng.choice(keys))
        s.op(syncop if retry else rng.choice(["flush", "sync_data"]), h=1)
        if retry:
            s.op("del", h=1, k=rng.choice(keys))
        if retry and seed % 2 == 0 and not second:
            # the last handle of the map goes away and the map is asked for again, all while the OS still refuses writes
            s.op("drop_h", h=1)
            s.op("map", h=1, db=0, name="m", kt="bytes")
            s.op("dump", h=1, **{"as": "C16.view"})
    s.op("rlimit_fsize")                       # lift
    s.op("copy_dir", **{"from": "d", "to": "snapA"})
    s.op("child_dump", dir="snapA", name="m", kt="bytes", **{"as": "C16.reported"})
    s.op("rm_dir", dir="snapA")
    s.op("dump", h=1, **{"as": "C16.view"})     # the in-memory view stays fully correct
    s.op("iter", h=1, flavour="iter")
    s.op(syncop if retry else rng.choice(["flush", "sync_all", "sync_data"]), h=1)
    s.op("copy_dir", **{"from": "d", "to": "snapB"})
    s.op("child_dump", dir="snapB", name="m", kt="bytes", **{"as": "C16.recover"})
    s.op("rm_dir", dir="snapB")
    for k in rng.sample(keys, 4):
        s.op("put", h=1, k=k, v=rng.choice(vids))
    s.op("dump", h=1)
    s.op("new_process")
    s.op("decode", dir="d", name="m", native=True)
    s.op("child_dump", dir="d", name="m", kt="bytes")
    return s


def fault_thresholds(shape, count, rng):
    """distinct limits between 'nothing fits' and 'everything fits'"""
    base = [0, 1, 127, 128, 129, 191, 192, 193, 200, 256, 131071, 131072, 131073, 262143, 262144, 262145]
    if shape == "htx":
        hl = 128 + 8 * 32768 + 32768 // 8
        base += [hl - 1, hl, hl + 1, 128 + 8 * 32768 - 1, 128 + 8 * 32768, 128 + 8 * 32768 + 1]
        top = hl + 4096
    else:
        top = 600000
    grid = [rng.randrange(0, top) for _ in range(count)] + [rng.randrange(192, 20000) for _ in range(count // 2)]
    out = []
    for t in base + grid:
        if t not in out:
            out.append(t)
    return out


BUCKET_PARAMS_Q = [["BucketsSize", 1], ["BucketsSize", 2], ["BucketsSize", 3], ["BucketsSize", 4], ["BucketsSize", 8], ["BucketsSize", 100],
                   ["BucketsSize", 65536], ["BucketsSize", 300], ["BucketsSize", 129], ["BucketsSize", 5000], ["Capacity", 1], ["Capacity", 7], ["Capacity", 8], ["Capacity", 9], ["Capacity", 100], ["Capacity", 65536]]
BUF_PARAMS = [["Size", 0], ["Size", 1], ["Size", 131072], ["Size", 262144], ["Size", 1048576], ["PerMille", 1000], ["Auto"]]


def gen_params(seed, idbase=0, nops=220, buckets=("BucketsSize", 8), bufs=None, reopen=None, tag=None, kt="bytes", name="params", decode=True):
    """C07: one history (a function of the seed only) executed under a given configuration; enough data
    (values up to 70 KB, keys up to 60 KB) to pass several buffer chunks and force eviction."""
    rng = random.Random(seed)          # NOTE: the history depends on the seed only, never on the configuration
    s = Script(idbase, design=False, name=name)
    s.tag = tag
    s.meta.update(kind="params", seed=seed, buckets=list(buckets), bufs=bufs, tag=tag)
    keys = _mk_keys(s, rng, kt, 30, lens=[0, 1, 8, 10, 11, 40, 127, 128, 3000]) + [s.key(20000), s.key(60000), s.key(45000)]
    vids = [s.newval(x) for x in (0, 3, 20, 100, 1100, 4095, 4096, 4097, 20000, 70000, 131072, 50000)]
    params = {"buckets": list(buckets)}
    if bufs:
        params.update(key_buf=bufs[0], val_buf=bufs[1], htx_buf=bufs[2])
    s.op("open_db", db=0, dir="d")
    s.op("map", h=1, db=0, name="m", kt=kt, params=params)
    nbk = layout_buckets(buckets)
    if kt in ("bytes", "string") and 16 <= nbk <= 65536 and nbk & (nbk - 1) == 0:
        # in the still empty table: two keys in one bucket, the newer one deleted, a traversal - whatever the table
        # keeps per bucket next to the chain head must survive the delete of the head, for every table size
        ka, kb = s.key_in_bucket(9, nbk, 3), s.key_in_bucket(10, nbk, 3)
        s.op("put", h=1, k=ka, v=vids[0])
        s.op("put", h=1, k=kb, v=vids[1])
        s.op("del", h=1, k=kb)
        s.op("iter", h=1, flavour=FLAVOURS[seed % len(FLAVOURS)])
        s.op("get", h=1, k=ka)
        s.op("del", h=1, k=ka)
    for i in range(nops):
        r = rng.random()
        k = rng.choice(keys)
        if r < 0.5:
            s.op("put", h=1, k=k, v=rng.choice(vids))
        elif r < 0.7:
            s.op("del", h=1, k=k)
            if i % 3 == 0:
                # a traversal right after a delete (what the delete did to the table's bookkeeping must not depend on
                # the table size); the flavour is chosen without drawing from the history's generator
                s.op("iter", h=1, flavour=FLAVOURS[i % len(FLAVOURS)])
        elif r < 0.88:
            s.op("get", h=1, k=k)
        elif r < 0.93:
            s.op("len", h=1)
        elif r < 0.97:
            s.op("iter", h=1, flavour=rng.choice(FLAVOURS))
        else:
            s.op(rng.choice(["flush", "sync_data", "read_fill_buffer"]), h=1)
        if i == nops // 4 or i == (3 * nops) // 4:
            # the map is asked for again while it is open, with other parameters: they are ignored, the handle
            # denotes the same contents (all later calls go through the newer handle)
            s.op("map", h=1, db=0, name="m", kt=kt, params=reopen or {"buckets": ["BucketsSize", 2]}, **{"as": "C07.reopen"})
            s.op("dump", h=1, **{"as": "C07.reopen"})
        if i == nops // 2:
            s.op("dump", h=1)
            s.op("drop_all")
            if decode:
                s.op("decode", dir="d", name="m", native=True)
            s.op("open_db", db=0, dir="d")
            s.op("map", h=1, db=0, name="m", kt=kt, params=reopen, **{"as": "C07.reopen"})
            s.op("dump", h=1, **{"as": "C07.reopen"})
    s.op("dump", h=1)
    s.op("iter", h=1, flavour="iter")
    s.op("new_process")
    if decode:
        s.op("decode", dir="d", name="m", native=True)
    s.op("child_dump", dir="d", name="m", kt=kt, params=reopen, **{"as": "C07.reopen"})
    return s


MAP_NAMES = ["a", "b.x", "b.y", "data.2024", "data.2025", "m-1", "A", "b", "n" * 200, "x"]


def gen_multi(seed, idbase=0, nops=250, nmaps=3, name="multi"):
    """C11: interleaved histories over several named maps of mixed key types in one directory; handles
    cloned, re-acquired and looked up through a cloned database handle; files of the maps that are
    not operated on compared byte for byte across the other maps' updates."""
    rng = random.Random(seed)
    s = Script(idbase, design=False, name=name)
    s.meta.update(kind="multi", seed=seed, nmaps=nmaps)
    names = rng.sample(MAP_NAMES, nmaps)
    # two names that differ only behind the last dot are always included
    if "b.x" not in names or "b.y" not in names:
        names[0], names[1 % nmaps] = "b.x", "b.y"
    names = list(dict.fromkeys(names))
    # two names that differ only in letter case, with the SAME key type (one registry): still two maps
    casepair = rng.choice([("idx", "IDX"), ("Log.a", "log.a"), ("a", "A")])
    names = [x for x in names if x not in casepair] + list(casepair)
    pair_kt = rng.choice(KTS)
    s.op("open_db", db=0, dir="d")
    s.op("clone_db", db=1, **{"from": 0})
    maps = []
    nh = 0
    for nm in names:
        kt = pair_kt if nm in casepair else rng.choice(KTS)
        nh += 1
        pr = {"buckets": rng.choice([["BucketsSize", 4], ["BucketsSize", 64], ["Capacity", 30]])}
        s.op("map", h=nh, db=0, name=nm, kt=kt, params=pr)
        maps.append(dict(name=nm, kt=kt, hs=[nh], keys=_mk_keys(s, rng, kt, 10), params=pr, upd=[]))
    vids = [s.newval(x) for x in (0, 3, 20, 21, 100, 1100, 5000)]
    tagn = 0
    for i in range(nops):
        m = rng.choice(maps)
        r = rng.random()
        if r < 0.08:
            nh += 1
            how = rng.random()
            if how < 0.4:
                s.op("clone_h", h=nh, **{"from": rng.choice(m["hs"])})
            elif how < 0.7:
                s.op("map", h=nh, db=0, name=m["name"], kt=m["kt"])
            else:
                s.op("map", h=nh, db=1, name=m["name"], kt=m["kt"], params={"buckets": ["BucketsSize", 2]})
            m["hs"].append(nh)
            continue
        if r < 0.125 and r >= 0.11:
            # one clone of the database handle goes away while map handles are alive; later a new clone
            s.op("drop_db", db=1)
            s.op("clone_db", db=1, **{"from": 0})
            continue
        if r < 0.11 and len(m["hs"]) > 1:
            h = m["hs"].pop(rng.randrange(len(m["hs"])))
            s.op("drop_h", h=h)
            continue
        h = rng.choice(m["hs"])
        k = rng.choice(m["keys"])
        check_others = rng.random() < 0.25
        others = [o for o in maps if o is not m]
        if check_others:
            tagn += 1
            for o in others:
                s.op("digest", dir="d", name=o["name"], tag="pre%d_%s" % (tagn, o["name"]))
        if r < 0.55:
            v = rng.choice(vids)
            s.op("put", h=h, k=k, v=v)
            m["upd"].append(("put", k, v))
        elif r < 0.72:
            s.op("del", h=h, k=k)
            m["upd"].append(("del", k, None))
        elif r < 0.86:
            s.op("get", h=rng.choice(m["hs"]), k=k)
        elif r < 0.92:
            s.op("len", h=rng.choice(m["hs"]))
        elif r < 0.96:
            if rng.random() < 0.6:
                # between two steps of the traversal, read-only calls go through ANOTHER handle of the same map
                s.op("iter", h=rng.choice(m["hs"]), flavour=rng.choice(FLAVOURS),
                     interleave=rng.sample(["len", "is_empty", "new_iter", "get", "includes"], rng.randrange(1, 4)), probe=m["keys"][:5])
            else:
                s.op("iter", h=rng.choice(m["hs"]), flavour=rng.choice(FLAVOURS))
        else:
            s.op(rng.choice(["flush", "sync_all"]), h=h)
        if check_others:
            for o in others:
                s.op("digest", dir="d", name=o["name"], tag="post%d_%s" % (tagn, o["name"]))
                s.op("note", conj="C11.others", same=["pre%d_%s" % (tagn, o["name"]), "post%d_%s" % (tagn, o["name"])])
        if i % 60 == 59:
            for o in maps:
                s.op("dump", h=rng.choice(o["hs"]), ks=o["keys"], **{"as": "C11.result"})
    s.op("new_process")
    for o in maps:
        s.op("decode", dir="d", name=o["name"], native=True)
        s.op("child_dump", dir="d", name=o["name"], kt=o["kt"], ks=o["keys"], **{"as": "C11.result"})
    # solo: the updates of ONE of the maps alone, in a fresh process and directory with the same parameters - its files
    # must be the ones it has next to its neighbours (what the neighbours stored must not reach them)
    sm = maps[seed % len(maps)]
    s.op("open_db", db=0, dir="dS")
    s.op("map", h=1, db=0, name=sm["name"], kt=sm["kt"], params=sm["params"])
    for (o, k, v) in sm["upd"]:
        if o == "put":
            s.op("put", h=1, k=k, v=v)
        else:
            s.op("del", h=1, k=k)
    s.op("new_process")
    s.op("digest", dir="d", name=sm["name"], tag="multi")
    s.op("digest", dir="dS", name=sm["name"], tag="solo")
    s.op("note", conj="C11.solo", same=["multi", "solo"])
    return s


def gen_manymaps(seed, idbase=0, count=20, kt="string", name="manymaps"):
    """C11: more maps of one key type than any cache would keep; every map held by exactly one handle;
    repeated lookups by name (also through a cloned database handle) must alias the first handle"""
    rng = random.Random(seed)
    s = Script(idbase, design=False, name=name)
    s.meta.update(kind="manymaps", seed=seed, count=count, kt=kt)
    s.op("open_db", db=0, dir="d")
    s.op("clone_db", db=1, **{"from": 0})
    keys = _mk_keys(s, rng, kt, 4)
    vids = [s.newval(x) for x in (3, 20, 100)]
    for i in range(count):
        s.op("map", h=i + 1, db=0, name="map%02d" % i, kt=kt, params={"buckets": ["BucketsSize", 8]})
        s.op("put", h=i + 1, k=keys[0], v=vids[i % 3])
    nh = count
    for i in rng.sample(range(count), min(count, 12)):
        nh += 1
        s.op("put", h=i + 1, k=keys[1], v=rng.choice(vids))                 # through the first handle
        s.op("map", h=nh, db=rng.choice([0, 1]), name="map%02d" % i, kt=kt)   # looked up again by name
        s.op("get", h=nh, k=keys[1])
        s.op("put", h=nh, k=keys[2], v=rng.choice(vids))                    # through the second handle
        s.op("get", h=i + 1, k=keys[2])
        s.op("len", h=i + 1)
        s.op("dump", h=nh, ks=keys, **{"as": "C11.result"})
    s.op("db_sync_all", db=0)
    s.op("new_process")
    for i in range(count):
        s.op("child_dump", dir="d", name="map%02d" % i, kt=kt, ks=keys, **{"as": "C11.result"})
    return s


def gen_iter_pairs(seed, idbase=0, n=128, kt="bytes", name="iterpairs"):
    """C04: tables with exactly two (then three) occupied buckets: one at a stride border in the front part,
    one in the last strides, everything in between empty - the shapes where a scan that skips 64 buckets
    at a time can lose the tail"""
    rng = random.Random(seed)
    s = Script(idbase, design=True, name=name)
    s.op("open_db", db=0, dir="d")
    s.op("map", h=1, db=0, name="m", kt=kt, params={"buckets": ["BucketsSize", n]})
    v = s.val(3)
    firsts = sorted({b for b in (0, 7, 8, 15, 63, 64, 71, 72, 127) if b < n - 64})
    lasts = sorted({b for b in (n - 1, n - 2, n - 7, n - 8, n - 9, n - 56, n - 57, n - 63, n - 64) if b >= 0})
    for a in firsts:
        for b in rng.sample(lasts, min(len(lasts), 4)):
            if a == b:
                continue
            ka, kb = s.key_in_bucket(8, n, a), s.key_in_bucket(9, n, b)
            s.op("put", h=1, k=ka, v=v)
            s.op("put", h=1, k=kb, v=v)
            s.op("iter", h=1, flavour=rng.choice(FLAVOURS))
            s.op("del", h=1, k=ka)
            s.op("iter", h=1, flavour=rng.choice(FLAVOURS))
            s.op("del", h=1, k=kb)
    s.op("decode", dir="d", name="m", flush_h=1, native=True)
    s.op("iter", h=1, flavour="iter")
    return s


def gen_readonly(seed, idbase=0, nb=("BucketsSize", 16), state="dense", kt="bytes", nro=60, name="ro"):
    """C15: a state class is built and closed; then a session of read-only calls only; the three files
    must be byte-identical before and after."""
    rng = random.Random(seed)
    s = Script(idbase, design=False, name=name)
    n = layout_buckets(nb)
    s.meta.update(kind="readonly", seed=seed, nb=list(nb), state=state)
    keys = _mk_keys(s, rng, kt, 24)
    absent = _mk_keys(s, rng, kt, 8)
    vids = [s.newval(x) for x in (0, 3, 20, 100, 1100, 5000)]
    s.op("open_db", db=0, dir="d")
    s.op("map", h=1, db=0, name="m", kt=kt, params={"buckets": list(nb)})
    live = []
    if state in ("dense", "sparse", "emptied"):
        cnt = {"dense": 24, "sparse": 2, "emptied": 6}[state]
        for k in keys[:cnt]:
            s.op("put", h=1, k=k, v=rng.choice(vids))
            live.append(k)
        if state == "dense":
            for k in rng.sample(live, 6):
                s.op("del", h=1, k=k)
                live.remove(k)
        if state == "emptied":
            for k in list(live):
                s.op("del", h=1, k=k)
            live = []
    if state == "edge":
        # the lowest occupied bucket sits at the end of a group of 8 / 64 buckets (or is the last one), a few
        # more above it: what a traversal may remember about "where the first record is" must not change the next one
        lows = sorted({b for b in (7, 15, 63, 71, 127, n - 1, n - 9) if 0 <= b < n})
        low = lows[seed % len(lows)]
        ks = [s.key_in_bucket(8 + j, n, low) for j in range(2)]
        ks += [s.key_in_bucket(9, n, b) for b in sorted({min(n - 1, low + d) for d in (1, 8, 57)}) if b > low]
        for k in ks:
            s.op("put", h=1, k=k, v=rng.choice(vids))
            live.append(k)
        keys = ks + keys[:6]
    s.op("new_process")
    s.op("digest", dir="d", name="m", tag="before")
    s.op("decode", dir="d", name="m", native=True)
    s.op("open_db", db=0, dir="d")
    s.op("map", h=1, db=0, name="m", kt=kt)
    walked = set()
    for i in range(nro):
        r = rng.random()
        k = rng.choice(keys + absent)
        if r < 0.25:
            s.op("get", h=1, k=k)
        elif r < 0.35:
            s.op("includes", h=1, k=k)
        elif r < 0.45:
            s.op(rng.choice(["len", "is_empty"]), h=1)
        elif r < 0.62:
            if rng.random() < 0.5:
                s.op("iter", h=1, flavour=rng.choice(FLAVOURS), interleave=rng.sample(["len", "is_empty", "new_iter", "get", "includes"], 2), probe=keys[:5])
            else:
                s.op("iter", h=1, flavour=rng.choice(FLAVOURS))
        elif r < 0.70:
            s.op("bulk_get", h=1, ks=[rng.choice(keys + absent) for _ in range(rng.randrange(0, 8))])
        elif r < 0.80:
            if state == "empty" or rng.random() < 0.4:
                # a single statistics call (one walk over one file); on a map that never held a record one
                # walk per file at most, so that a call which damages the file is followed by the close
                # and the comparison rather than by a second walk over the damage
                pool = [w for w in ("kfree", "vfree", "ksize", "vsize", "klen", "vlen", "kcount", "filling")
                        if not (state == "empty" and ((w in ("ksize", "klen") and "K" in walked) or (w in ("vsize", "vlen") and "V" in walked)))
                        and not (w == "filling" and n > 65536)]
                w = rng.choice(pool)
                if w in ("ksize", "klen"):
                    walked.add("K")
                if w in ("vsize", "vlen"):
                    walked.add("V")
                s.op("stats", h=1, only=w)
            else:
                s.op("stats", h=1, filling=(n <= 65536))
        elif r < 0.86:
            s.op("read_fill_buffer", h=1)
        else:
            s.op(rng.choice(["flush", "sync_all", "sync_data"]), h=1)
    s.op("dump", h=1)
    s.op("new_process")
    # ("always": also when a read-only call above did not return and the worker was killed - what the files
    #  look like then is still an observation about read-only calls)
    s.op("digest", dir="d", name="m", tag="after", always=True)
    s.op("note", conj="C15.bytes", same=["before", "after"], always=True)
    s.op("child_dump", dir="d", name="m", kt=kt)
    return s


def gen_twice(seed, idbase=0, nops=150, nb=("BucketsSize", 32), kt="bytes", bufs=None, name="twice", nkeys=20, tail=False, same_process=False,
              interleaved=False, reloc=False):
    """C18: the same update history with the same parameters is run twice: replica A plainly, replica B in
    another process and directory with read-only calls spliced in; the files must be byte-identical."""
    rng = random.Random(seed)
    s = Script(idbase, design=False, name=name)
    n = layout_buckets(nb)
    s.meta.update(kind="twice", seed=seed, nb=list(nb))
    keys = _mk_keys(s, rng, kt, nkeys)
    vids = [s.newval(x) for x in (0, 3, 20, 21, 100, 1100, 1500, 5000, 20000)]
    params = {"buckets": list(nb)}
    chainkeys = []
    if nkeys >= 20 and n <= 2:
        # a bucket chain of more than 64 entries (lookups deep inside it happen in replica B only)
        chainkeys = _mk_keys(s, rng, kt, 70, lens=[9, 10, 12])
    if bufs:
        params.update(key_buf=bufs[0], val_buf=bufs[1], htx_buf=bufs[2])
    upd = []
    for i in range(nops):
        k = rng.choice(keys)
        r = rng.random()
        if r < 0.62:
            upd.append(("put", k, rng.choice(vids)))
        elif r < 0.88:
            upd.append(("del", k, None))
        else:
            ks = list(dict.fromkeys(rng.choice(keys) for _ in range(rng.randrange(2, 9))))
            upd.append((rng.choice(["bulk_put", "put_from_iter", "bulk_del"]), ks, [rng.choice(vids) for _ in ks]))
    # phase 2 (tail): a value file larger than its buffer; the record at the end of the file is deleted and
    # a shorter one appended, with many reads of other records in between in replica B only
    tail_keys = _mk_keys(s, rng, kt, 160) if tail else []
    tv = [s.newval(x) for x in (200, 180, 150, 90, 60, 30, 700, 650)] if tail else []
    tail_ops = []
    if tail:
        for k in tail_keys:
            tail_ops.append(("put", k, rng.choice(tv[:3] + tv[6:])))
        fresh = _mk_keys(s, rng, kt, 12)
        lastk = tail_keys[-1]
        for nk in fresh:
            tail_ops.append(("del", lastk, None))
            tail_ops.append(("reads", None, None))
            tail_ops.append(("put", nk, rng.choice(tv[3:6])))
            lastk = nk
    # phase 0 (reloc): key records that exactly fill their slot move when the value file passes 16 KiB (their stored
    # value offset gets wider), the vacated slots are re-used by new keys of the same lengths; replica B asks for the
    # statistics (free-slot counts among them), looks keys up and traverses BEFORE and AFTER the slots are vacated
    reloc_ops = []
    if reloc:
        rlens = [9, 10, 11, 12, 13, 14, 15, 16, 19, 27]
        rk = _mk_keys(s, rng, kt, 10, lens=rlens)[:10]
        small, mid, bv = s.newval(3), s.newval(40), s.newval(17000)
        bk = _mk_keys(s, rng, kt, 1, lens=[21])[0]
        fresh = _mk_keys(s, rng, kt, 10, lens=rlens)[:10]
        reloc_ops = [("ro", None, None)] + [("put", k, small) for k in rk] + [("ro", None, None), ("put", bk, bv)] + \
                    [("put", k, mid) for k in rk] + [("ro", None, None)] + [("put", k, small) for k in fresh] + [("ro", None, None)]
        keys = keys + rk[:3]
    if same_process:
        # replica A runs in a process that has already worked on ANOTHER map in another directory (records of
        # many lengths written, overwritten in place, relocated, deleted, read); replica B runs in a fresh
        # process: whatever the first one left behind in the process must not reach the files
        wk = _mk_keys(s, rng, kt, 10)
        wv = [s.newval(x) for x in (1, 7, 15, 23, 31, 47, 63, 100, 120, 250, 500, 900, 1015, 3000)]
        s.op("open_db", db=0, dir="dW")
        s.op("map", h=1, db=0, name="w", kt=kt, params=params)
        for k in wk:
            s.op("put", h=1, k=k, v=rng.choice(wv))
        for _ in range(60):
            k = rng.choice(wk)
            s.op("put", h=1, k=k, v=rng.choice(wv))
            if rng.random() < 0.2:
                s.op("del", h=1, k=rng.choice(wk))
            if rng.random() < 0.2:
                s.op("get", h=1, k=rng.choice(wk))
        # records of every small slot class rewritten in place by slightly shorter ones, the longest last: whatever
        # the process keeps from its last writes (scratch images of a slot, say) is longer than anything replica A writes first
        for j, (a, b) in enumerate([(31, 25), (60, 50), (120, 100), (250, 240), (500, 490), (900, 880)]):
            wkj = wk[j % len(wk)]
            s.op("put", h=1, k=wkj, v=s.newval(a))
            s.op("put", h=1, k=wkj, v=s.newval(b))
        s.op("iter", h=1, flavour="iter")
        s.op("stats", h=1, filling=True)
        s.op("dump", h=1)
        s.op("drop_all")
    # phase 1 (shrink): values rewritten in place by much shorter ones (the padding behind them is written anew)
    shrink_ops = []
    # (keys of their own: nothing rewrites these slots later)
    sk = _mk_keys(s, rng, kt, 4, lens=[9, 11, 14, 18])
    for j, (a, b) in enumerate([(100, 20), (400, 3), (60, 0), (1000, 700)]):
        shrink_ops += [("put", sk[j], s.newval(a)), ("put", sk[j], s.newval(b))]
    # phase 2 (head): a key is put, looked up (replica B only), a new key is put (in a one-bucket table: in front of it),
    # the first one is deleted - what the lookup remembered about the chain is stale by then
    head_ops = []
    if nkeys >= 20:
        hk = _mk_keys(s, rng, kt, 7, lens=[9, 10, 12, 17])
        head_ops.append(("put", hk[0], vids[1]))
        for j in range(len(hk) - 1):
            head_ops += [("look", hk[j], None), ("put", hk[j + 1], vids[2]), ("del", hk[j], None)]
    if interleaved:
        # both replicas are open at the same time in ONE process (two database objects on two fresh directories),
        # every update goes to A and then to B; the read-only calls go to B only
        s.op("open_db", db=0, dir="dA")
        s.op("open_db", db=1, dir="dB")
        s.op("map", h=1, db=0, name="m", kt=kt, params=params)
        s.op("map", h=2, db=1, name="m", kt=kt, params=params)
        for ck in chainkeys[:20]:
            s.op("put", h=1, k=ck, v=vids[1])
            s.op("put", h=2, k=ck, v=vids[1])
        for (o, k, v) in upd:
            for h in (1, 2):
                if o == "put":
                    s.op("put", h=h, k=k, v=v)
                elif o == "del":
                    s.op("del", h=h, k=k)
                elif o == "bulk_del":
                    s.op("bulk_del", h=h, ks=k)
                else:
                    s.op(o, h=h, ks=k, vs=v)
            if rng.random() < 0.4:
                s.op(rng.choice(["get", "includes"]), h=2, k=rng.choice(keys))
            elif rng.random() < 0.15:
                s.op("iter", h=2, flavour=rng.choice(FLAVOURS))
        s.op("dump", h=2)
        s.op("new_process")
        # ("always": the comparison of the files is made whatever happened to the calls before)
        s.op("digest", dir="dA", name="m", tag="repA", always=True)
        s.op("digest", dir="dB", name="m", tag="repB", always=True)
        s.op("note", conj="C18.equal", same=["repA", "repB"], always=True)
        s.op("decode", dir="dB", name="m", native=True)
        return s
    for rep, d in (("A", "dA"), ("B", "dB")):
        s.op("open_db", db=0, dir=d)
        s.op("map", h=1, db=0, name="m", kt=kt, params=params)
        if rep == "B":
            s.op("iter", h=1, flavour=rng.choice(FLAVOURS))      # traversal of the fresh, empty table
        for ck in chainkeys:
            s.op("put", h=1, k=ck, v=vids[1])
        if rep == "B":
            for ck in chainkeys[:12] + chainkeys[-3:]:
                s.op("get", h=1, k=ck)
                s.op("includes", h=1, k=ck)
        for (o, k, v) in reloc_ops:
            if o == "put":
                s.op("put", h=1, k=k, v=v)
            elif rep == "B":
                s.op("stats", h=1, filling=(n <= 65536))
                s.op("get", h=1, k=rng.choice(keys))
                s.op("iter", h=1, flavour=rng.choice(FLAVOURS))
                s.op("stats", h=1, only=rng.choice(["kfree", "vfree"]))
        for (o, k, v) in shrink_ops + head_ops:
            if o == "put":
                s.op("put", h=1, k=k, v=v)
            elif o == "del":
                s.op("del", h=1, k=k)
            elif rep == "B":
                s.op("get", h=1, k=k)
                s.op("includes", h=1, k=k)
        for (o, k, v) in tail_ops:
            if o == "put":
                s.op("put", h=1, k=k, v=v)
            elif o == "del":
                s.op("del", h=1, k=k)
            elif rep == "B":
                for kk in tail_keys[:150:2]:
                    s.op("get", h=1, k=kk)
                s.op("iter", h=1, flavour="values")
        for (o, k, v) in upd:
            if o == "put":
                s.op("put", h=1, k=k, v=v)
            elif o == "del":
                s.op("del", h=1, k=k)
            elif o == "bulk_del":
                s.op("bulk_del", h=1, ks=k)
            else:
                s.op(o, h=1, ks=k, vs=v)
            if rep == "B" and (rng.random() < 0.04 or (n < 8 and upd.index((o, k, v)) == 10)):
                # replica B closes everything and opens the map again (in-process or in a new process)
                s.op(rng.choice(["drop_all", "new_process"]))
                s.op("open_db", db=0, dir=d)
                s.op("map", h=1, db=0, name="m", kt=kt, params=rng.choice([params, None]) or params)
                s.op("len", h=1)
            if rep == "B" and rng.random() < 0.5:
                r = rng.random()
                if r < 0.3:
                    s.op("get", h=1, k=rng.choice(keys))
                elif r < 0.5:
                    s.op("iter", h=1, flavour=rng.choice(FLAVOURS))
                elif r < 0.6:
                    s.op("len", h=1)
                elif r < 0.7:
                    s.op("includes", h=1, k=rng.choice(keys))
                elif r < 0.8:
                    s.op("stats", h=1, filling=(n <= 65536))
                elif r < 0.9:
                    s.op("bulk_get", h=1, ks=[rng.choice(keys) for _ in range(3)])
                else:
                    s.op("read_fill_buffer", h=1)
        if rep == "B" and seed % 2 == 0:
            # the last session of replica B only reads: everything is closed, opened again, looked at and closed
            s.op("drop_all")
            s.op("open_db", db=0, dir=d)
            s.op("map", h=1, db=0, name="m", kt=kt)
            s.op("len", h=1)
            s.op("get", h=1, k=rng.choice(keys))
            s.op("iter", h=1, flavour=rng.choice(FLAVOURS))
        if rep == "B":
            s.op("dump", h=1)       # (replica A makes no read-only call at all: a lookup of every key is one, too)
        s.op("new_process")
    s.op("digest", dir="dA", name="m", tag="repA", always=True)
    s.op("digest", dir="dB", name="m", tag="repB", always=True)
    s.op("note", conj="C18.equal", same=["repA", "repB"], always=True)
    s.op("decode", dir="dB", name="m", native=True)
    s.op("child_dump", dir="dA", name="m", kt=kt)
    return s


SIG1 = {"htx": b"abysdbH\0", "key": b"abysdbK\0", "val": b"abysdbV\0"}
SIG2 = {"string": b"string\0\0", "bytes": b"bytes\0\0\0", "i64": b"i64_le\0\0", "u64": b"u64_le\0\0", "vu64": b"u64_le\0\0"}


def gen_wrongtype(seed, idbase=0, pairs=None, sigvals=4, name="wrongtype"):
    """C13: files created for one key type opened as another one; a file of another key type swapped in;
    every signature byte of every file mutated; short foreign files.  A refused open must leave all
    files byte-for-byte unchanged."""
    rng = random.Random(seed)
    s = Script(idbase, design=False, name=name)
    s.meta.update(kind="wrongtype", seed=seed)
    # every second map has a dot in its name (the file names are <name>.htx/.key/.val: "m.bytes.key")
    def MN(kt):
        return ("m." if KTS.index(kt) % 2 == 0 else "m_") + kt

    pairs = pairs if pairs is not None else [(a, b) for a in KTS for b in KTS if a != b]
    tagn = 0

    def refused(d, nm, kt, what, only=None):
        nonlocal tagn
        tagn += 1
        s.op("digest", dir=d, name=nm, tag="pre%d" % tagn)
        # the open parameters (also an explicit bucket count other than the stored one) must not matter
        prm = rng.choice(REOPEN_PARAMS[:6] + [{"buckets": ["BucketsSize", 64]}, {"buckets": ["Capacity", 100]}])
        if prm:
            s.op("child_dump", dir=d, name=nm, kt=kt, note=what, ks=[], params=prm)
        else:
            s.op("child_dump", dir=d, name=nm, kt=kt, note=what, ks=[])
        s.op("digest", dir=d, name=nm, tag="post%d" % tagn)
        if only:
            s.op("note", conj="C13.unchanged", same=["pre%d" % tagn, "post%d" % tagn], only=only)
        else:
            s.op("note", conj="C13.unchanged", same=["pre%d" % tagn, "post%d" % tagn])

    # one map per key type, with a few entries, closed
    s.op("open_db", db=0, dir="d")
    keysof = {}
    vids = [s.newval(x) for x in (3, 20, 1100)]
    for i, kt in enumerate(KTS):
        s.op("map", h=i + 1, db=0, name=MN(kt), kt=kt, params={"buckets": ["BucketsSize", 8]})
        keysof[kt] = _mk_keys(s, rng, kt, 4)
        for k in keysof[kt]:
            s.op("put", h=i + 1, k=k, v=rng.choice(vids))
        if i % 2 == 1:
            # every second map is emptied again: its files hold no entry (item count 0), only free slots
            for k in keysof[kt]:
                s.op("del", h=i + 1, k=k)
    # (0) in the SAME session: a map that was just created (nothing flushed yet) or just written is asked for under
    # the same name as another key type, through the same database object: refused, and the session goes on
    for j, (a, b) in enumerate(rng.sample([p for p in pairs if SIG2[p[0]] != SIG2[p[1]]], 4)):
        nm = "fresh%d" % j
        s.op("map", h=20 + j, db=0, name=nm, kt=a, params={"buckets": ["BucketsSize", 8]})
        if j % 2:
            s.op("put", h=20 + j, k=keysof[a][0], v=vids[0])
        s.op("map", h=40 + j, db=0, name=nm, kt=b, expect_refusal=True)
        s.op("len", h=20 + j)
        s.op("put", h=20 + j, k=keysof[a][1], v=vids[1])
        s.op("dump", h=20 + j, ks=keysof[a])
    s.op("new_process")
    s.op("copy_dir", **{"from": "d", "to": "bak"})
    # (1) every ordered pair of key types
    for (a, b) in pairs:
        refused("d", MN(a), b, "open %s as %s" % (a, b))
    # (2) one of the three files carries the signature of another key type (file swapped in)
    for (a, b) in rng.sample(pairs, min(len(pairs), 8)):
        if SIG2[a] == SIG2[b]:
            continue
        for ext in ("htx", "key", "val"):
            s.op("mutate_file", file="d/%s.%s" % (MN(a), ext), copy_from="bak/%s.%s" % (MN(b), ext), map="d/" + MN(a), foreign=True)
            refused("d", MN(a), a, "file .%s of %s swapped in" % (ext, b))
            s.op("mutate_file", file="d/%s.%s" % (MN(a), ext), copy_from="bak/%s.%s" % (MN(a), ext), map="d/" + MN(a), foreign=False)
    # (2b) a file of the SIBLING kind of the same map in place of another one (botched restore)
    for kt in rng.sample(KTS, 2):
        for dst, src in (("val", "key"), ("key", "val"), ("htx", "key"), ("key", "htx"), ("val", "htx")):
            s.op("mutate_file", file="d/%s.%s" % (MN(kt), dst), copy_from="bak/%s.%s" % (MN(kt), src), map="d/" + MN(kt), foreign=True)
            refused("d", MN(kt), kt, "the .%s file in place of the .%s file" % (src, dst))
            s.op("mutate_file", file="d/%s.%s" % (MN(kt), dst), copy_from="bak/%s.%s" % (MN(kt), dst), map="d/" + MN(kt), foreign=False)
    # (2c) one file missing or empty, the others of another key type: still refused, the existing files unchanged
    for (a, b) in rng.sample([p for p in pairs if SIG2[p[0]] != SIG2[p[1]]], 3):
        for ext in ("htx", "val", "key"):
            for how in ("truncate", "remove"):
                if how == "truncate":
                    s.op("mutate_file", file="d/%s.%s" % (MN(a), ext), truncate=0, map="d/" + MN(a), foreign=True)
                else:
                    s.op("mutate_file", file="d/%s.%s" % (MN(a), ext), remove=True, map="d/" + MN(a), foreign=True)
                # the absent / empty file is not one "created for a key type": the open has to be refused and the
                # two files that exist must stay as they are (the unchanged tree initialises an empty .key first)
                refused("d", MN(a), b, "%s .%s, opened as %s" % (how, ext, b),
                        only=[j + 1 for j, x in enumerate(("htx", "key", "val")) if x != ext])
                s.op("mutate_file", file="d/%s.%s" % (MN(a), ext), copy_from="bak/%s.%s" % (MN(a), ext), map="d/" + MN(a), foreign=False)
    # (3) single-byte mutations of the 16 signature bytes of each file
    a = rng.choice(KTS)
    for ext in ("htx", "key", "val"):
        orig = SIG1[ext] + SIG2[a]
        for off in range(16):
            vals = [x for x in range(256) if x != orig[off]]
            for x in (vals if sigvals >= 255 else rng.sample(vals, sigvals)):
                s.op("mutate_file", file="d/%s.%s" % (MN(a), ext), at=off, hex="%02x" % x, map="d/" + MN(a), foreign=True)
                refused("d", MN(a), a, "byte %d of .%s = %02x" % (off, ext, x))
                s.op("mutate_file", file="d/%s.%s" % (MN(a), ext), at=off, hex="%02x" % orig[off], map="d/" + MN(a), foreign=False)
    # (4) short and long foreign files in place of one of the files
    for ext, ln in (("key", 1), ("key", 100), ("key", 191), ("key", 192), ("key", 5000), ("val", 100), ("val", 191), ("htx", 60), ("htx", 127), ("htx", 128), ("htx", 4000)):
        text = (b"This is not a database file. " * 200)[:ln]
        s.op("mutate_file", file="d/%s.%s" % (MN(a), ext), content_hex=text.hex(), map="d/" + MN(a), foreign=True)
        refused("d", MN(a), a, "foreign %d-byte file as .%s" % (ln, ext))
        s.op("mutate_file", file="d/%s.%s" % (MN(a), ext), copy_from="bak/%s.%s" % (MN(a), ext), map="d/" + MN(a), foreign=False)
    # afterwards every map still opens with its contents
    for kt in KTS:
        s.op("child_dump", dir="d", name=MN(kt), kt=kt, ks=keysof[kt])
    return s


def gen_bulk(seed, idbase=0, nops=200, kt="bytes", nb=("BucketsSize", 16), name="bulk"):
    """C14: bulk and convenience calls spliced into a history; judged element-wise by the contract"""
    rng = random.Random(seed)
    s = Script(idbase, design=False, name=name)
    s.meta.update(kind="bulk", seed=seed, kt=kt)
    keys = _mk_keys(s, rng, kt, 40)
    vids = [s.val_ascii(x) for x in (0, 1, 3, 10, 20, 21, 100, 300, 1100, 2000)] + [s.val_ascii(rng.randrange(1, 60)) for _ in range(10)]
    # values that are not valid UTF-8: the *_string variants return their lossy decoding
    raw = [s.val_invalid_utf8(x)[0] for x in (9, 20, 300, 11, 12, 13, 14)]
    s.op("open_db", db=0, dir="d")
    s.op("map", h=1, db=0, name="m", kt=kt, params={"buckets": list(nb)})
    s.op("clone_h", h=2, **{"from": 1})
    typed = True          # string / bytes maps are addressed by integers as well (8 big-endian bytes)
    if kt in ("string", "bytes"):
        for x in (1, 127, 128, 255, 1000, (1 << 32) + 5, (1 << 63) + 1):
            k = s.key(u64=x, enc="be")
            if k:
                keys.append(k)
    _op = s.op

    def bop(opname, **kw):
        # typed maps: half of the bulk calls go through the integer key type (Q = u64 / i64) instead of the bytes
        if typed and opname.startswith(("bulk_", "put_from_iter")) and opname != "put_from_iter_self" and rng.random() < 0.5 \
                and all(k in s.intkeys for k in kw.get("ks", [])):
            kw["via"] = "int"
        return _op(opname, **kw)

    def batch(norepeat, lo=0, hi=12):
        n = rng.randrange(lo, hi)
        if rng.random() < 0.1:
            n = rng.randrange(50, 200)
        ks = [rng.choice(keys) for _ in range(n)]
        if norepeat:
            ks = list(dict.fromkeys(ks))
        rng.shuffle(ks)
        return ks

    intk = [k for k in keys if k in s.intkeys]
    for i in range(nops):
        r = rng.random()
        if kt in ("string", "bytes") and i % 12 == 5:
            # the map addressed by integers: put_from_iter builds the keys BY VALUE, the other calls by reference
            ks = rng.sample(intk, rng.randrange(1, len(intk) + 1))
            s.op("put_from_iter", h=1, ks=ks, vs=[rng.choice(vids) for _ in ks], via="int")
            s.op("bulk_get", h=1, ks=ks, via="int")
            s.op("get", h=1, k=ks[0], via="int")
            s.op("get", h=1, k=ks[0])
            if rng.random() < 0.5:
                s.op("bulk_del", h=1, ks=ks[:2], via="int")
            continue
        if i % 25 == 7:
            # the "rewrite everything" idiom: put_from_iter fed by the map's own iterator / by another handle's
            s.op("put_from_iter_self", h=1, src=rng.choice([1, 2]), flavour=rng.choice(["iter", "iter_mut", "into_iter"]))
            s.op("dump", h=1)
            continue
        if i % 40 == 0:
            # a batch that empties the map while absent keys are still pending, then batches on the empty map
            s.op("dump", h=1)
            allk = keys[:]
            rng.shuffle(allk)
            bop(rng.choice(["bulk_del", "bulk_del_string"]), h=1, ks=allk)
            bop(rng.choice(["bulk_del", "bulk_del_string"]), h=1, ks=rng.sample(keys, 3))
            bop("bulk_get", h=1, ks=rng.sample(keys, 2))
            bop("bulk_put", h=1, ks=keys[:2], vs=[vids[2], vids[3]])
            bop("bulk_del", h=1, ks=[keys[5], keys[0], keys[7], keys[1], keys[3]])
            bop("bulk_put", h=1, ks=[keys[9]], vs=[vids[1]])
            bop("bulk_get", h=1, ks=[])
            bop("bulk_del", h=1, ks=[])
            continue
        if r < 0.14:
            bop(rng.choice(["bulk_get", "bulk_get_string"]), h=1, ks=batch(False))
        elif r < 0.26:
            ks = batch(rng.random() < 0.85)
            bop(rng.choice(["bulk_del", "bulk_del_string"]), h=1, ks=ks)
        elif r < 0.40:
            ks = batch(True)
            bop(rng.choice(["bulk_put", "bulk_put_string"]), h=1, ks=ks, vs=[rng.choice(vids) for _ in ks])
        elif r < 0.52:
            ks = batch(False)                      # repeated keys allowed: applied in iteration order
            if ks and rng.random() < 0.7:
                ks = ks + [rng.choice(ks)] + [ks[0]]
            bop("put_from_iter", h=1, ks=ks, vs=[rng.choice(vids + raw) for _ in ks])
        elif r < 0.60:
            s.op("put_string", h=1, k=rng.choice(keys), v=rng.choice(vids))
        elif r < 0.68:
            s.op("put", h=1, k=rng.choice(keys), v=rng.choice(vids + raw))
        elif r < 0.76:
            k = rng.choice(keys)
            s.op(rng.choice(["get", "get_string", "includes"]), h=1, k=k)
        elif r < 0.82:
            s.op("len", h=1)
        elif r < 0.90:
            s.op(rng.choice(["del", "del_string"]), h=1, k=rng.choice(keys))
        else:
            s.op("dump", h=1)
    s.op("dump", h=1)
    s.op("new_process")
    s.op("decode", dir="d", name="m", native=True)
    s.op("child_dump", dir="d", name="m", kt=kt)
    return s


def conv_ints(rng, extra):
    xs = set()
    for b in range(0, 65):
        for d in (-1, 0, 1):
            x = (1 << b) + d
            if 0 <= x < (1 << 64):
                xs.add(x)
    for b in range(64):
        xs.add(1 << b)
        xs.add(((1 << 64) - 1) ^ (1 << b))
    xs.update([0, 1, (1 << 63) - 1, 1 << 63, (1 << 64) - 1, 0x0102030405060708, 0xfffefdfcfbfaf9f8])
    for _ in range(extra):
        xs.add(rng.getrandbits(rng.choice([7, 8, 14, 15, 21, 28, 35, 42, 49, 56, 57, 63, 64])))
    return sorted(xs)


def gen_conv(seed, idbase=0, extra=2000, name="conv"):
    """C10: integer <-> key conversions of every typed key type at every width boundary"""
    rng = random.Random(seed)
    s = Script(idbase, design=False, name=name)
    s.meta.update(kind="conv", seed=seed)
    for x in conv_ints(rng, extra):
        for kt in ("u64", "i64", "vu64", "bytes", "string"):
            if kt in ("bytes", "string") and rng.random() < 0.8:
                continue
            s.op("conv", kt=kt, u64=str(x))
    return s


def gen_samehash(seed, idbase=0, kt="bytes", nops=200, name="samehash"):
    """C10: two keys are the same exactly when their bytes are equal - also when their full 64-bit placement
    hashes are equal (pairs constructed by inverting the hash), looked up right after each other"""
    rng = random.Random(seed)
    s = Script(idbase, design=True, name=name)
    s.meta.update(kind="samehash", seed=seed, kt=kt)
    groups = []
    for g in range(4):
        h = rng.getrandbits(64)
        ks = []
        for _ in range(3):
            b = layout.key_for_hash(rng.choice([16, 17, 24, 9]), h, rng)
            if b not in s.keys.values():
                kid = s.key(raw=b)
                if kid:
                    ks.append(kid)
        groups.append(ks)
    vids = [s.val(x) for x in (3, 20, 100, 0)]
    s.op("open_db", db=0, dir="d")
    s.op("map", h=1, db=0, name="m", kt=kt, params={"buckets": rng.choice([["BucketsSize", 1], ["BucketsSize", 64], ["Capacity", 1000]])})
    for i in range(nops):
        g = rng.choice(groups)
        a, b = rng.sample(g, 2)
        r = rng.random()
        if r < 0.3:
            s.op("put", h=1, k=a, v=rng.choice(vids))
        elif r < 0.45:
            s.op("del", h=1, k=a)
        else:
            # a lookup of one key directly followed by calls on a DIFFERENT key with the same hash
            s.op(rng.choice(["get", "includes"]), h=1, k=a)
            s.op(rng.choice(["get", "includes", "get", "del", "put"]), h=1, k=b)
            if s.ops[-1]["op"] == "put":
                s.ops[-1]["v"] = rng.choice(vids)
        if i % 20 == 19:
            s.op("dump", h=1)
            s.op("decode", dir="d", name="m", flush_h=1, native=True)
    s.op("dump", h=1)
    s.op("iter", h=1, flavour="keys")
    s.op("new_process")
    s.op("decode", dir="d", name="m", native=True)
    s.op("child_dump", dir="d", name="m", kt=kt)
    return s


def gen_typed(seed, idbase=0, kt="u64", nb=("BucketsSize", 1), nops=250, name="typed"):
    """C10: a typed map driven through the integer API; two integers address one entry iff equal"""
    rng = random.Random(seed)
    s = Script(idbase, design=True, name=name)
    s.meta.update(kind="typed", seed=seed, kt=kt, nb=list(nb))
    enc = {"u64": "u64le", "i64": "i64le", "vu64": "vu64"}[kt]
    ints = [x for x in conv_ints(rng, 0)]
    rng.shuffle(ints)
    # pairs that share their low 56 bits / low bytes, and sign-bit neighbours
    cand = [(1 << 56) + 1, (1 << 57) + 1, (1 << 63) + 1, (255 << 56) + 1, 1, 256 + 1, (1 << 32) + 1, (1 << 63), (1 << 63) - 1, (1 << 64) - 1, 0] + ints[:14]
    keys = []
    for x in cand:
        k = s.key(u64=x, enc=enc)
        if k:
            keys.append(k)
    vids = [s.val(x) for x in (0, 3, 20, 100, 1100)]
    s.op("open_db", db=0, dir="d")
    s.op("map", h=1, db=0, name="m", kt=kt, params={"buckets": list(nb)})
    dec = dict(dir="d", name="m", flush_h=1, native=True)
    for i in range(nops):
        r = rng.random()
        k = rng.choice(keys)
        via = "int" if (k in s.intkeys and rng.random() < 0.8) else "bytes"
        if r < 0.45:
            s.op("put", h=1, k=k, v=rng.choice(vids), via=via)
        elif r < 0.62:
            s.op("del", h=1, k=k, via=via)
        elif r < 0.80:
            s.op("get", h=1, k=k, via=via)
        elif r < 0.86:
            s.op("includes", h=1, k=k, via=via)
        elif r < 0.90 and kt in ("u64", "i64", "vu64"):
            # the bulk calls address the same entries as the single calls: batches in which the numeric order
            # and the order of the encoded bytes disagree, through the integer key type
            ks = list(dict.fromkeys(rng.choice([x for x in keys if x in s.intkeys]) for _ in range(rng.randrange(2, 12))))
            w = rng.random()
            if w < 0.5:
                s.op("bulk_get", h=1, ks=ks, via="int")
            elif w < 0.75:
                s.op("bulk_put", h=1, ks=ks, vs=[rng.choice(vids) for _ in ks], via="int")
            else:
                s.op("bulk_del", h=1, ks=ks, via="int")
        elif r < 0.94:
            s.op("iter", h=1, flavour=rng.choice(FLAVOURS))
        else:
            s.op("len", h=1)
        if i % 25 == 24:
            s.op("decode", **dec)
        if i % 70 == 69:
            # the session ends; the next one opens the map with parameters of its own
            s.op("dump", h=1)
            s.op(rng.choice(["drop_all", "new_process"]))
            s.op("open_db", db=0, dir="d")
            s.op("map", h=1, db=0, name="m", kt=kt, params=rng.choice(REOPEN_PARAMS))
            s.op("dump", h=1)
    s.op("dump", h=1)
    s.op("new_process")
    s.op("decode", dir="d", name="m", native=True)
    s.op("child_dump", dir="d", name="m", kt=kt)
    return s


GOLDEN_KINDS = ["small", "large", "many", "tiny1", "tiny4", "big"]


def gen_golden(kind, kt, idbase=0):
    """the histories whose files, written by the PINNED release, are committed under /verif/golden.
    Deterministic; chosen not to trigger the defects D5/D6 of the pinned tree.  Returns (script, contents)"""
    rng = random.Random("golden-%s-%s" % (kind, kt))
    s = Script(idbase, design=False, name="golden_%s_%s" % (kt, kind))
    mem = {}
    if kind == "small":
        nb, nkeys = ["Capacity", 4], 30
        vl = [0, 1, 3, 14, 15, 20, 100, 126, 127, 400]
    elif kind.startswith("tiny"):
        # tables with fewer than 8 buckets: the bitmap is a single byte behind the heads
        nb, nkeys = ["BucketsSize", int(kind[4:])], 12
        vl = [0, 3, 14, 15, 100]
    elif kind == "big":
        # records above 128 KiB: slot-size and length fields of three bytes
        nb, nkeys = ["BucketsSize", 8], 7
        vl = [140000, 131000, 200000, 50, 3, 130939]
    elif kind == "large":
        nb, nkeys = ["BucketsSize", 64], 24
        vl = [1100, 2000, 3000, 5000, 1017, 1021]
    else:
        nb, nkeys = ["Capacity", 1000], 300
        vl = [0, 3, 8, 20]
    if kt in ("u64", "i64", "vu64"):
        keys = typed_keys(s, rng, kt, nkeys, odd=False)
    else:
        keys = []
        lens = [1, 4, 8, 10, 11, 16, 30, 100, 0] if kind != "large" else [10, 100, 200, 300]
        while len(keys) < nkeys:
            k = s.key(rng.choice(lens))
            if k:
                keys.append(k)
    vids = [s.newval(x) for x in vl]
    s.op("open_db", db=0, dir="g")
    s.op("map", h=1, db=0, name="m", kt=kt, params={"buckets": nb})

    def put(k, v):
        s.op("put", h=1, k=k, v=v)
        mem[k] = v

    def dele(k):
        s.op("del", h=1, k=k)
        mem.pop(k, None)

    for i, k in enumerate(keys):
        put(k, vids[i % len(vids)] if kind == "big" else rng.choice(vids))
    if kind == "big":
        # no overwrite (the pinned release cannot relocate a key record, D5): deletes and new keys only
        for k in rng.sample(keys, 2):
            dele(k)
        for k in keys:
            if k not in mem:
                put(k, vids[3])
                break
    elif kind.startswith("tiny"):
        for k in rng.sample(keys, 5):
            dele(k)
        for k in rng.sample(keys, 4):
            put(k, rng.choice(vids))
    elif kind == "small":
        for k in rng.sample(keys, 10):
            dele(k)
        for k in rng.sample(keys, 8):
            put(k, rng.choice(vids[:4]))             # small values only: re-use of freed slots
        for k in rng.sample(sorted(mem), 5):
            put(k, mem[k])                           # overwrite with the same value (in place)
        for k in rng.sample(sorted(mem), 4):
            dele(k)
    elif kind == "large":
        small = [s.newval(x) for x in (3, 20, 100)]
        for k in rng.sample(keys, 8):
            dele(k)                                  # large slots go to the shared free list and stay there
        for k in rng.sample(keys, 6):
            if k not in mem:
                put(k, rng.choice(small))
    else:
        for k in rng.sample(keys, 100):
            dele(k)
        for k in rng.sample(keys, 40):
            if k not in mem:
                put(k, rng.choice(vids))
    s.op("drop_all")
    return s, mem


def gen_golden_check(seed, golden_dir, expected, idbase_unused=0, nops=120, name="golden"):
    """C12: install a committed image written by the pinned release, open it with the current build,
    compare with the committed contents, then drive it further."""
    rng = random.Random(seed)
    s = Script(0, design=True, name=name)
    s.ops.append(expected["tables"])                  # same ids -> same bytes as at generation time
    kt = expected["kt"]
    content = expected["content"]
    keys = [k["id"] for k in expected["tables"]["keys"]]
    vals = [v["id"] for v in expected["tables"]["vals"]]
    s.idbase = max(keys + vals) + 1000
    # released directories also hold maps whose NAME contains dots: every second image is installed as "m.v2.2024"
    mn = "m.v2.2024" if (seed % 2 == 1) else "m"
    if mn == "m":
        s.op("install", src=golden_dir, dir="g")
    else:
        s.op("install", src=golden_dir, dir="g", rename=mn)
    s.op("load", m="g/" + mn, dir="g", kt=kt, n=expected["n"], content=content)
    s.op("digest", dir="g", name=mn, tag="golden_before")
    s.op("decode", dir="g", name=mn, native=True)
    s.op("child_dump", dir="g", name=mn, kt=kt, **{"as": "C12.content"})
    s.op("digest", dir="g", name=mn, tag="golden_after")
    s.op("note", conj="C15.bytes", same=["golden_before", "golden_after"])
    s.op("open_db", db=0, dir="g")
    s.op("map", h=1, db=0, name=mn, kt=kt, **{"as": "C12.content"})
    s.op("dump", h=1, **{"as": "C12.content"})
    s.op("iter", h=1, flavour="iter")
    dec = dict(dir="g", name=mn, flush_h=1, native=True)
    s.op("decode", **dec)
    small = [v["id"] for v in expected["tables"]["vals"] if v["len"] < 900] or vals
    newv = [s.newval(x) for x in (5, 50, 1200)]
    for i in range(nops):
        r = rng.random()
        k = rng.choice(keys)
        if r < 0.45:
            s.op("put", h=1, k=k, v=rng.choice(small + newv))
        elif r < 0.70:
            s.op("del", h=1, k=k)
        elif r < 0.90:
            s.op("get", h=1, k=k)
        else:
            s.op("hash", k=k)
        if i % 10 == 9:
            s.op("decode", **dec)
    s.op("dump", h=1)
    s.op("new_process")
    s.op("decode", dir="g", name=mn, native=True)
    s.op("child_dump", dir="g", name=mn, kt=kt, **{"as": "C12.content"})
    return s


def gen_golden_rewrite(kind, kt, golden_dir):
    """C12 (converse): the history that produced a committed image, executed by the current build,
    gives byte-identical files (the script is stored next to the image)"""
    s = Script(0, design=False, name="rewrite_%s_%s" % (kt, kind))
    s.ops = [json.loads(l) for l in open(golden_dir + "/script.ndjson") if l.strip()]
    s.op("install", src=golden_dir, dir="ref")
    s.op("digest", dir="g", name="m", tag="now")
    s.op("digest", dir="ref", name="m", tag="released")
    s.op("note", conj="C12.stable", same=["released", "now"])
    s.op("decode", dir="g", name="m", native=True)
    return s


def gen_probe(ranges_val, key_max, key_offsets, name="probe", chunk=400000):
    """C09: the layout-probe hook: the crate's own sizing decision for every length in the ranges"""
    s = Script(0, design=False, name=name)
    for (a, b) in ranges_val:
        x = a
        while x <= b:
            y = min(b, x + chunk - 1)
            s.op("probe_val", **{"from": x, "to": y})
            x = y + 1
    for voff in key_offsets[0]:
        for nxt in key_offsets[1]:
            s.op("probe_key", **{"from": 0, "to": key_max, "voff": voff, "nxt": nxt})
    return s


def gen_sweep(seed, idbase=0, lens=None, kt="bytes", name="sweep"):
    """C09 end to end: every length in `lens` stored between two sentinel entries, overwritten by
    len+1 and len-1 (across slot-size boundaries), decoded after each step"""
    rng = random.Random(seed)
    s = Script(idbase, design=True, name=name)
    s.op("open_db", db=0, dir="d")
    s.op("map", h=1, db=0, name="m", kt=kt, params={"buckets": ["BucketsSize", 4]})
    dec = dict(dir="d", name="m", flush_h=1, native=True)
    sa, sb = s.key(9), s.key(13)
    k = s.key(12)
    va, vb = s.newval(33), s.newval(77)
    for ln in lens:
        v0, v1, v2 = s.newval(ln), s.newval(ln + 1), s.newval(max(0, ln - 1))
        s.op("put", h=1, k=sa, v=va)
        s.op("put", h=1, k=k, v=v0)
        s.op("put", h=1, k=sb, v=vb)
        s.op("decode", **dec)
        s.op("put", h=1, k=k, v=v1)
        s.op("decode", **dec)
        s.op("put", h=1, k=k, v=v2)
        s.op("decode", **dec)
        s.op("get", h=1, k=k)
        s.op("get", h=1, k=sa)
        s.op("get", h=1, k=sb)
        # read back through the traversals as well (values() has its own reader in some designs)
        s.op("iter", h=1, flavour="values")
        s.op("iter", h=1, flavour=("iter", "keys", "iter_mut", "into_iter", "ref_into_iter")[rng.randrange(5)])
        s.op("del", h=1, k=sa)
        s.op("del", h=1, k=k)
        s.op("del", h=1, k=sb)
    s.op("decode", **dec)
    s.op("new_process")
    s.op("decode", dir="d", name="m", native=True)
    return s


def gen_keysweep(seed, idbase=0, klens=None, kt="bytes", name="keysweep"):
    """C09 for KEY lengths: every length in `klens` stored in a chain between two sentinel keys of the same
    bucket, found again (the lookup walks over it and compares it), its value overwritten in place and by
    a relocating length, deleted; decoded after the updates.  Long keys (>= 128 KiB) have a 3-byte
    slot-size field and a 3-byte length field."""
    rng = random.Random(seed)
    s = Script(idbase, design=True, name=name)
    n = 2
    s.op("open_db", db=0, dir="d")
    s.op("map", h=1, db=0, name="m", kt=kt, params={"buckets": ["BucketsSize", n]})
    dec = dict(dir="d", name="m", flush_h=1, native=True)
    sa, sb = s.key_in_bucket(9, n, 0), s.key_in_bucket(13, n, 0)
    va, vb, v3, v200 = s.newval(33), s.newval(77), s.newval(3), s.newval(200)
    for kl in klens:
        k = s.key_in_bucket(kl, n, 0) if kl >= 4 else s.key(kl)
        if not k:
            continue
        s.op("put", h=1, k=sa, v=va)
        s.op("put", h=1, k=k, v=v3)
        s.op("put", h=1, k=sb, v=vb)
        s.op("decode", **dec)
        for q in (sa, k, sb):
            s.op("get", h=1, k=q)
        s.op("includes", h=1, k=k)
        s.op("put", h=1, k=k, v=v200)
        s.op("decode", **dec)
        s.op("put", h=1, k=sa, v=v200)
        s.op("get", h=1, k=k)
        s.op("get", h=1, k=sb)
        s.op("iter", h=1, flavour=rng.choice(FLAVOURS))
        s.op("del", h=1, k=k)
        s.op("decode", **dec)
        s.op("del", h=1, k=sa)
        s.op("del", h=1, k=sb)
    s.op("new_process")
    s.op("decode", dir="d", name="m", native=True)
    return s


def gen_linkwidth(seed, idbase=0, pklen=18, nfill=3, name="linkwidth", kt="bytes"):
    """C09/C08: a chain P -> D -> X in one bucket where X lives above 128 KiB of the key file (its link takes
    3 bytes), D in a re-used slot at the start of the file (2 bytes were estimated for the link to it) and P's
    record exactly fills its slot; D is deleted, so P's link widens - P has to move (or the record no longer
    fits its slot).  Then the neighbours behind P are read and rewritten."""
    rng = random.Random(seed)
    s = Script(idbase, design=True, name=name)
    n = 2
    s.op("open_db", db=0, dir="d")
    s.op("map", h=1, db=0, name="m", kt=kt, params={"buckets": ["BucketsSize", n]})
    dec = dict(dir="d", name="m", flush_h=1, native=True)
    v3, v10, v900, v100 = s.newval(3), s.newval(10), s.newval(900), s.newval(100)
    d0 = s.key_in_bucket(30, n, 1)
    s.op("put", h=1, k=d0, v=v3)                       # a low 48-byte slot, freed again below
    s.op("put", h=1, k=s.key_in_bucket(12, n, 1), v=v900)   # the value file passes 1 KiB
    fill = [s.key_in_bucket(60000, n, 1) for _ in range(nfill)]
    for k in fill:
        s.op("put", h=1, k=k, v=v3)                    # the key file passes 128 KiB
    x = s.key_in_bucket(20, n, 0)
    s.op("put", h=1, k=x, v=v10)                       # X: appended above 128 KiB
    s.op("del", h=1, k=d0)
    d = s.key_in_bucket(30, n, 0)
    s.op("put", h=1, k=d, v=v3)                        # D: re-uses the low slot, head of the chain
    s.op("decode", **dec)
    pk = s.key_in_bucket(pklen, n, 0)
    s.op("put", h=1, k=pk, v=v10)                      # P: exactly fills its slot while it links to D
    nb1, nb2 = s.key_in_bucket(10, n, 1), s.key_in_bucket(10, n, 1)
    s.op("put", h=1, k=nb1, v=v3)                      # the pieces stored behind P
    s.op("put", h=1, k=nb2, v=v3)
    s.op("decode", **dec)
    s.op("dump", h=1)
    s.op("del", h=1, k=d)                              # P now links to X
    s.op("decode", **dec)
    for k in (pk, x, nb1, nb2):
        s.op("get", h=1, k=k)
    s.op("put", h=1, k=nb1, v=v100)                    # the neighbour is rewritten (its value moves)
    s.op("decode", **dec)
    s.op("put", h=1, k=nb2, v=v100)
    s.op("decode", **dec)
    s.op("dump", h=1)
    s.op("iter", h=1, flavour="iter")
    # and the other way round: the link narrows again
    s.op("put", h=1, k=d, v=v3)
    s.op("del", h=1, k=pk)
    s.op("decode", **dec)
    s.op("dump", h=1)
    s.op("new_process")
    s.op("decode", dir="d", name="m", native=True)
    s.op("child_dump", dir="d", name="m", kt=kt)
    return s


def bfs_spec(kind, idbase=0):
    """alphabets for the breadth-first exploration of the real on-disk state graph (C08); they mirror the
    model-checking configurations MCStore_q / MCStore_w16k so that state counts can be compared"""
    s = Script(idbase, design=True, name="bfs_" + kind)
    if kind == "q":
        n = 1
        keys = [s.key_in_bucket(10, 1, 0), s.key_in_bucket(11, 1, 0)]
        vals = [s.newval(3), s.newval(20)]
        prefix = []
        ops_keys = keys
    elif kind == "t":
        n = 1
        keys = [s.key_in_bucket(10, 1, 0), s.key_in_bucket(11, 1, 0)]
        vals = [s.newval(3), s.newval(20), s.newval(1100)]
        prefix = []
        ops_keys = keys
    else:   # w16k / w2m: four colliding 10-byte keys in bucket 0, ballast in bucket 1
        width = 16300 if kind.startswith("w16k") else 2097000
        n = 2
        keys = [s.key_in_bucket(10, 2, 0) for _ in range(4)]
        bk = s.key_in_bucket(width, 2, 1)
        vals = [s.newval(3), s.newval(20)]
        bv = s.newval(width)
        prefix = [{"op": "put", "h": 1, "k": k, "v": vals[0]} for k in keys] + [{"op": "put", "h": 1, "k": bk, "v": bv}]
        ops_keys = keys[:2] if kind.endswith("_q") else keys[:3]
    alphabet = [{"op": "put", "k": k, "v": v} for k in ops_keys for v in vals] + [{"op": "del", "k": k} for k in ops_keys]
    s.flush_tables()
    tables = {"op": "tables", "keys": [], "vals": []}
    for o in s.ops:
        if o["op"] == "tables":
            tables["keys"] += o["keys"]
            tables["vals"] += o["vals"]
    return {"kt": "bytes", "n": n, "params": {"buckets": ["BucketsSize", n]}, "tables": tables, "prefix": prefix, "alphabet": alphabet, "kind": kind}


def gen_inplace(seed, idbase=0, slots=None, name="inplace"):
    """C09: the decision "does the new record still fit the old slot": for each slot size, a value that
    lives in that slot is first shrunk (short length field), then overwritten with lengths around the
    largest one that fits, and around slot - header for every header width; neighbours on both sides;
    decoded after each step."""
    rng = random.Random(seed)
    s = Script(idbase, design=True, name=name)
    s.op("open_db", db=0, dir="d")
    s.op("map", h=1, db=0, name="m", kt="bytes", params={"buckets": ["BucketsSize", 2]})
    dec = dict(dir="d", name="m", flush_h=1, native=True)
    slots = slots or [16, 24, 32, 48, 64, 128, 256, 384, 1024, 1152, 16512]
    n = 0
    for S in slots:
        # largest value length whose fresh slot is <= S
        fit = max(l for l in range(0, S) if layout.val_slot(l) <= S)
        cands = sorted({fit - 2, fit - 1, fit, fit + 1, S - 2, S - 3, S - 4, S - 5, S - 6} & set(range(0, S + 2)))
        for b in cands:
            n += 1
            ka, kb, kc = s.key(8), s.key(9), s.key(10)
            first = max(l for l in range(0, fit + 1) if layout.val_slot(l) == S) if any(layout.val_slot(l) == S for l in range(0, fit + 1)) else fit
            s.op("put", h=1, k=ka, v=s.newval(33))
            s.op("put", h=1, k=kb, v=s.newval(first))            # lives in a slot of S bytes
            s.op("put", h=1, k=kc, v=s.newval(44))               # the neighbour behind it
            s.op("put", h=1, k=kb, v=s.newval(rng.choice([0, 1, 5, 100][: 3 if S < 128 else 4])))   # shrink in place
            s.op("decode", **dec)
            s.op("put", h=1, k=kb, v=s.newval(b))                # grow to around the boundary
            s.op("decode", **dec)
            s.op("get", h=1, k=kc)
            s.op("get", h=1, k=ka)
            s.op("get", h=1, k=kb)
            s.op("put", h=1, k=kc, v=s.newval(45))               # touch the neighbour
            s.op("decode", **dec)
            for k in (ka, kb, kc):
                s.op("del", h=1, k=k)
    s.op("new_process")
    s.op("decode", dir="d", name="m", native=True)
    return s


def gen_stats_sync(seed, idbase=0, rounds=12, name="statsync"):
    """C17: statistics after update + sync_all/sync_data (no explicit flush), the files decoded in between"""
    rng = random.Random(seed)
    s = Script(idbase, design=True, name=name)
    keys = [s.key(ln) for ln in (4, 5, 5, 8, 10, 29, 100, 0)]
    vids = [s.val(x) for x in (0, 3, 20, 100, 1100, 2000)]
    s.op("open_db", db=0, dir="d")
    s.op("map", h=1, db=0, name="m", kt="bytes", params={"buckets": ["BucketsSize", 16]})
    for r in range(rounds):
        for _ in range(rng.randrange(1, 4)):
            if rng.random() < 0.65:
                s.op("put", h=1, k=rng.choice(keys), v=rng.choice(vids))
            else:
                s.op("del", h=1, k=rng.choice(keys))
        s.op(rng.choice(["sync_all", "sync_data", "db_sync_all", "flush"]), **({"h": 1}))
        if s.ops[-1]["op"].startswith("db_"):
            del s.ops[-1]["h"]
            s.ops[-1]["db"] = 0
        s.op("decode", dir="d", name="m", native=True)        # the files as they are after the sync
        s.op("stats", h=1)
        if rng.random() < 0.5:
            s.op("stats", h=1)
    s.op("new_process")
    s.op("decode", dir="d", name="m", native=True)
    return s


def gen_cyclic(seed, idbase=0, rounds=10, shape="mixed", name="cyclic"):
    """C06: a bounded live set cycled many times: fill, delete all, refill with the sizes permuted;
    decoded after every update so that the bound 'slots per class <= peak used + 1' is judged on a
    gap-free history, and the file ends must stop growing."""
    rng = random.Random(seed)
    s = Script(idbase, design=True, name=name)
    s.meta.update(kind="cyclic", seed=seed, shape=shape, rounds=rounds)
    sizes = {"small": [3, 14, 15, 22, 23, 40, 100, 126],
             "large": [1000, 1100, 1500, 2000, 2040, 3000, 1017, 1021],
             "mixed": [0, 3, 20, 100, 400, 1100, 2000, 5000]}[shape]
    keys = [s.key(ln) for ln in (8, 10, 11, 12, 20, 30, 100, 9)]
    vids = [s.newval(x) for x in sizes]
    s.op("open_db", db=0, dir="d")
    s.op("map", h=1, db=0, name="m", kt="bytes", params={"buckets": ["BucketsSize", 2]})
    dec = dict(dir="d", name="m", flush_h=1, native=True)
    for r in range(rounds):
        perm = vids[:]
        rng.shuffle(perm)
        order = keys[:]
        rng.shuffle(order)
        for k, v in zip(order, perm):
            s.op("put", h=1, k=k, v=v)
            s.op("decode", **dec)
        if r % 3 == 2:
            s.op("stats", h=1)
        rng.shuffle(order)
        for k in order:
            s.op("del", h=1, k=k)
            s.op("decode", **dec)
    s.op("stats", h=1)
    s.op("new_process")
    s.op("decode", dir="d", name="m", native=True)
    return s
