"""Seeded workload generators: each returns a Script (list of ops for `abyverif run`).
All randomness comes from the seed passed in; generators are deterministic functions of it."""
import json
import random
from . import layout

VAL_EDGES = layout.val_boundaries(6000)          # lengths around every slot-class change
SMALL_VALS = [0, 1, 3, 14, 15, 22, 23, 30, 31, 46, 47, 62, 63, 100, 126, 127, 200, 253, 254, 400, 900]
LARGE_VALS = [1017, 1018, 1019, 1020, 1021, 1022, 1100, 1145, 1146, 1147, 1500, 2000, 2040, 3000, 4090, 4093, 4094, 4095, 4096, 4097, 5000, 9000]
KEY_LENS = [0, 1, 2, 7, 8, 9, 10, 11, 12, 13, 14, 15, 16, 17, 20, 21, 22, 29, 30, 40, 60, 100, 123, 124, 125, 126, 127, 128, 250, 1000]
KTS = ["bytes", "string", "u64", "i64", "vu64"]


class Script:
    def __init__(self, idbase=0, design=True, name="h"):
        self.ops = []
        self.idbase = idbase
        self.nk = 0
        self.nv = 0
        self.pk = []
        self.pv = []
        self.keys = {}      # id -> bytes
        self.vals = {}      # id -> len
        self.vbylen = {}
        self.meta = {"name": name}
        self.ops.append({"op": "reset", "design": design})

    # --- tables
    def key(self, ln=None, raw=None, u64=None, enc=None):
        self.nk += 1
        kid = self.idbase + self.nk
        if raw is not None:
            self.pk.append({"id": kid, "hex": raw.hex()})
            b = raw
        elif u64 is not None:
            self.pk.append({"id": kid, "u64": str(u64), "enc": enc})
            b = {"u64le": lambda x: x.to_bytes(8, 'little'), "i64le": lambda x: x.to_bytes(8, 'little'),
                 "be": lambda x: x.to_bytes(8, 'big'), "vu64": layout.vu64_encode}[enc](u64)
        else:
            self.pk.append({"id": kid, "len": ln})
            b = layout.gen_bytes(ord('k'), kid, ln)
        if b in self.keys.values():
            # not distinct (tiny lengths): give the id back
            self.pk.pop()
            self.nk -= 1
            return None
        self.keys[kid] = b
        return kid

    def key_in_bucket(self, ln, n, bucket, tries=3000000):
        """a key of length ln whose placement hash lands in `bucket` of an n-bucket table (n a power of two):
        solved directly for ln >= 8 (the hash is invertible chunk by chunk), searched for shorter keys"""
        if not hasattr(self, "_krng"):
            self._krng = random.Random(self.idbase * 7919 + 17)
        rng = self._krng
        if ln >= 8:
            for _ in range(50):
                h = (rng.getrandbits(64) & ~(n - 1)) | bucket
                b = layout.key_for_hash(ln, h, rng)
                if b not in self.keys.values():
                    self.nk += 1
                    kid = self.idbase + self.nk
                    self.pk.append({"id": kid, "hex": b.hex()})
                    self.keys[kid] = b
                    return kid
            raise RuntimeError("no distinct key found")
        for _ in range(tries):
            b = bytes(rng.getrandbits(8) for _ in range(ln))
            if layout.khash(b) % n == bucket and b not in self.keys.values():
                self.nk += 1
                kid = self.idbase + self.nk
                self.pk.append({"id": kid, "hex": b.hex()})
                self.keys[kid] = b
                return kid
        raise RuntimeError("no key found for bucket %d of %d (len %d)" % (bucket, n, ln))

    def val(self, ln):
        if ln in self.vbylen:
            return self.vbylen[ln]
        return self.newval(ln)

    def newval(self, ln):
        if ln < 4 and ln in self.vbylen:
            return self.vbylen[ln]      # tiny values: the universe is too small for distinct fillers
        self.nv += 1
        vid = self.idbase + self.nv
        self.pv.append({"id": vid, "len": ln})
        self.vals[vid] = ln
        self.vbylen.setdefault(ln, vid)
        return vid

    def flush_tables(self):
        if self.pk or self.pv:
            self.ops.append({"op": "tables", "keys": self.pk, "vals": self.pv})
            self.pk, self.pv = [], []

    def op(self, opname, **kw):
        self.flush_tables()
        d = {"op": opname}
        d.update(kw)
        self.ops.append(d)
        return d

    def dumps(self):
        self.flush_tables()
        return "\n".join(json.dumps(o, separators=(",", ":")) for o in self.ops) + "\n"


def params_of(rng, nb=None, bufs=False):
    p = {}
    if nb is not None:
        p["buckets"] = nb
    if bufs:
        for f in ("key_buf", "val_buf", "htx_buf"):
            p[f] = rng.choice([["Auto"], ["PerMille", 1000], ["Size", 0], ["Size", 262144], ["Size", 1048576]])
    return p


def typed_keys(s, rng, kt, count):
    """keys for a typed map: ints at encoding boundaries and random ones"""
    enc = {"u64": "u64le", "i64": "i64le", "vu64": "vu64"}[kt]
    pool = set()
    for b in range(0, 64, 7):
        for d in (-1, 0, 1):
            x = (1 << b) + d
            if 0 <= x < (1 << 64):
                pool.add(x)
    pool.update([0, 1, 127, 128, 255, 256, (1 << 63), (1 << 64) - 1, (1 << 63) - 1])
    pool = sorted(pool)
    rng.shuffle(pool)
    out = []
    for x in pool[:count]:
        k = s.key(u64=x, enc=enc)
        if k:
            out.append(k)
    while len(out) < count:
        k = s.key(u64=rng.getrandbits(rng.choice([8, 16, 32, 64])), enc=enc)
        if k:
            out.append(k)
    return out


def gen_l2(seed, idbase=0, nops=120, nkeys=8, nb=("BucketsSize", 2), vals=None, klens=None, kt="bytes",
           one_bucket=False, ballast=0, stats_every=3, iter_every=6, bufs=False, name="l2"):
    """small universe, decoded storage state after every update (L2)"""
    rng = random.Random(seed)
    s = Script(idbase, design=True, name=name)
    s.meta.update(kind="l2", seed=seed, nb=list(nb), kt=kt, ballast=ballast)
    n = layout_buckets(nb)
    if kt in ("u64", "i64", "vu64"):
        keys = typed_keys(s, rng, kt, nkeys)
    else:
        klens = klens or [10, 11, 10, 0, 12, 20, 13, 127]
        keys = []
        for i in range(nkeys):
            ln = klens[i % len(klens)]
            k = s.key_in_bucket(ln, n, 0) if (one_bucket and ln >= 4) else s.key(ln)
            if k:
                keys.append(k)
    vlens = vals or rng.sample(SMALL_VALS, 4) + rng.sample(LARGE_VALS, 3)
    vids = [s.val(x) for x in vlens]
    s.op("open_db", db=0, dir="d")
    s.op("map", h=1, db=0, name="m", kt=kt, params=params_of(rng, list(nb), bufs))
    dec = dict(dir="d", name="m", flush_h=1, native=True)
    if ballast:
        # records that push the file ends above an offset-width boundary while the keys
        # operated on (and the slots they free) stay below it
        for k in keys[:3]:
            s.op("put", h=1, k=k, v=vids[0])
        bk = s.key(ballast) if kt in ("bytes", "string") else None
        bv = s.newval(ballast)
        if bk:
            s.op("put", h=1, k=bk, v=bv)
        else:
            s.op("put", h=1, k=keys[3 % len(keys)], v=bv)
        s.op("decode", **dec)
    for i in range(nops):
        r = rng.random()
        k = rng.choice(keys)
        if r < 0.45:
            s.op("put", h=1, k=k, v=rng.choice(vids))
            s.op("decode", **dec)
        elif r < 0.68:
            s.op("del", h=1, k=k)
            s.op("decode", **dec)
        elif r < 0.80:
            s.op("get", h=1, k=k)
        elif r < 0.85:
            s.op("includes", h=1, k=k)
        elif r < 0.90:
            s.op(rng.choice(["len", "is_empty"]), h=1)
        if stats_every and i % stats_every == 0:
            s.op("decode", **dec)
            s.op("stats", h=1, filling=(n <= 65536))
        if iter_every and i % iter_every == 0:
            s.op("iter", h=1, flavour=rng.choice(["iter", "iter_mut", "keys", "values", "into_iter"]))
    s.op("new_process")
    s.op("decode", dir="d", name="m", native=True)
    s.op("child_dump", dir="d", name="m", kt=kt)
    return s


def layout_buckets(nb):
    kind, x = nb[0], (nb[1] if len(nb) > 1 else 0)
    if kind == "BucketsSize":
        p = 1
        while p < x:
            p *= 2
        return p
    if kind == "Capacity":
        if x < 8:
            return 8
        y = x + x // 8
        p = 1
        while p < y:
            p *= 2
        return p
    return 16 * 1024 * 1024


def gen_l1(seed, idbase=0, nops=3000, nkeys=300, nb=("BucketsSize", 64), kt="bytes", big=2, reopen_every=700,
           bufs=False, name="l1", final_decode=True, huge=False):
    """long history, contract-level validation of every call (L1), snapshots at every close (L3)"""
    rng = random.Random(seed)
    s = Script(idbase, design=False, name=name)
    s.meta.update(kind="l1", seed=seed, nb=list(nb), kt=kt)
    if kt in ("u64", "i64", "vu64"):
        keys = typed_keys(s, rng, kt, nkeys)
    else:
        keys = []
        while len(keys) < nkeys:
            ln = rng.choice(KEY_LENS) if rng.random() < 0.8 else rng.randrange(0, 300)
            k = s.key(ln)
            if k:
                keys.append(k)
        for _ in range(big):
            k = s.key(rng.choice([4000, 16384, 65535, 65536]))
            keys.append(k)
    pool = sorted(set(rng.sample(VAL_EDGES, min(40, len(VAL_EDGES))) + SMALL_VALS + LARGE_VALS))
    for _ in range(big):
        pool.append(rng.choice([16383, 16384, 131071, 131072, 131073, 300000]))
    if huge:
        pool.append(rng.choice([1 << 20, (1 << 24) - 9, 1 << 24]))
    vids = [s.newval(x) for x in pool] + [s.newval(rng.choice(pool[:40])) for _ in range(30)]
    params = params_of(rng, list(nb), bufs)
    s.op("open_db", db=0, dir="d")
    s.op("map", h=1, db=0, name="m", kt=kt, params=params)
    hot = keys[:max(4, nkeys // 10)]
    for i in range(nops):
        r = rng.random()
        k = rng.choice(hot) if rng.random() < 0.5 else rng.choice(keys)
        if r < 0.40:
            v = rng.choice(vids) if rng.random() < 0.97 else vids[len(pool) - 1]
            s.op("put", h=1, k=k, v=v)
        elif r < 0.62:
            s.op("del", h=1, k=k)
        elif r < 0.85:
            s.op("get", h=1, k=k)
        elif r < 0.90:
            s.op("includes", h=1, k=k)
        elif r < 0.97:
            s.op(rng.choice(["len", "is_empty"]), h=1)
        elif r < 0.985:
            s.op("iter", h=1, flavour=rng.choice(["iter", "iter_mut", "keys", "values", "into_iter"]))
        else:
            s.op(rng.choice(["flush", "sync_data", "sync_all"]), h=1)
        if reopen_every and i % reopen_every == reopen_every - 1:
            s.op("dump", h=1)
            s.op(rng.choice(["drop_all", "new_process"]))
            s.op("decode", dir="d", name="m", native=True)
            s.op("open_db", db=0, dir="d")
            s.op("map", h=1, db=0, name="m", kt=kt, params=params_of(rng, None, bufs))
            s.op("dump", h=1)
    s.op("dump", h=1)
    s.op("new_process")
    if final_decode:
        s.op("decode", dir="d", name="m", native=True)
    s.op("child_dump", dir="d", name="m", kt=kt)
    return s


def gen_reloc(seed, idbase=0, nops=150, width=16384, nkeys=5, name="reloc"):
    """C08: colliding keys whose records exactly fill their slots, free slots below and file ends
    above an offset-width boundary, so that overwrites move value records, key records and the
    predecessors' key records (relink cascades); decoded state after every update."""
    rng = random.Random(seed)
    s = Script(idbase, design=True, name=name)
    s.meta.update(kind="reloc", seed=seed, width=width)
    n = 2
    full = [10, 18, 26, 42, 58]           # key lengths whose record exactly fills its slot (small offsets)
    slack = [11, 12, 20]
    lens = [rng.choice(full) if rng.random() < 0.8 else rng.choice(slack) for _ in range(nkeys)]
    lens[0] = 10
    lens[1] = 10
    keys = [s.key_in_bucket(ln, n, 0) for ln in lens]
    vlens = [3, 14, 15, 40, 100, 300, 1100, 2000]
    vids = [s.val(x) for x in vlens]
    s.op("open_db", db=0, dir="d")
    s.op("map", h=1, db=0, name="m", kt="bytes", params={"buckets": ["BucketsSize", n]})
    dec = dict(dir="d", name="m", flush_h=1, native=True)
    # low region: the colliding records and a few slots freed again
    for k in keys:
        s.op("put", h=1, k=k, v=vids[rng.randrange(0, 3)])
    extra = [s.key_in_bucket(10, n, 0) for _ in range(2)]
    for k in extra:
        s.op("put", h=1, k=k, v=vids[0])
    for k in extra:
        s.op("del", h=1, k=k)
    # ballast in the other bucket: both file ends move above the width boundary
    bk = s.key_in_bucket(width - 80, n, 1)
    bv = s.newval(width - 80)
    s.op("put", h=1, k=bk, v=bv)
    s.op("decode", **dec)
    allk = keys + extra
    for i in range(nops):
        r = rng.random()
        k = rng.choice(allk)
        if r < 0.62:
            s.op("put", h=1, k=k, v=rng.choice(vids))
        elif r < 0.90:
            s.op("del", h=1, k=k)
        else:
            s.op("get", h=1, k=rng.choice(allk))
            continue
        s.op("decode", **dec)
        if i % 10 == 9:
            s.op("dump", h=1)
            s.op("stats", h=1)
    s.op("new_process")
    s.op("decode", dir="d", name="m", native=True)
    s.op("child_dump", dir="d", name="m", kt="bytes")
    return s


FLAVOURS = ["iter", "iter_mut", "keys", "values", "into_iter", "ref_into_iter"]


def gen_iter(seed, idbase=0, nb=("BucketsSize", 128), kt="bytes", rounds=4, name="iter"):
    """C04: occupancy patterns the bitmap scan treats as distinct cases (bucket n-9, n-8, n-1, first and
    last bucket of 8-byte strides), random insert/overwrite/delete in between, emptied-again maps;
    all iterator flavours after every phase."""
    rng = random.Random(seed)
    s = Script(idbase, design=True, name=name)
    n = layout_buckets(nb)
    s.meta.update(kind="iter", seed=seed, nb=list(nb), n=n)
    s.op("open_db", db=0, dir="d")
    s.op("map", h=1, db=0, name="m", kt=kt, params={"buckets": list(nb)})
    dec = dict(dir="d", name="m", flush_h=1, native=True)
    vids = [s.val(x) for x in (3, 20, 100, 0)]

    def iters(k=3):
        fl = FLAVOURS if k >= len(FLAVOURS) else rng.sample(FLAVOURS, k)
        for f in fl:
            s.op("iter", h=1, flavour=f)

    iters(6)                                            # fresh, empty
    special = {0, n - 1, n - 8, n - 9, n - 10, n - 64, n - 65, 7, 8, 63, 64, 65, 71, 72, 119, 120, 127, 128, n // 2, n // 2 - 1}
    special = sorted(b for b in special if 0 <= b < n)
    live = []
    for r in range(rounds):
        targets = rng.sample(special, min(len(special), rng.randrange(1, 5))) + [rng.randrange(n) for _ in range(rng.randrange(0, 4))]
        for b in targets:
            for _ in range(rng.randrange(1, 3)):        # chains of one or two
                k = s.key_in_bucket(rng.choice([8, 10, 12, 17]) if n > 4096 else rng.choice([4, 8, 10, 12]), n, b)
                s.op("put", h=1, k=k, v=rng.choice(vids))
                live.append(k)
        s.op("decode", **dec)
        s.op("len", h=1)
        iters(6 if r == 0 else 3)
        # overwrite some, delete some (oldest of a chain included)
        for k in rng.sample(live, min(len(live), 3)):
            s.op("put", h=1, k=k, v=rng.choice(vids))
        dels = rng.sample(live, rng.randrange(0, len(live) + 1) if r % 2 else min(2, len(live)))
        for k in dels:
            s.op("del", h=1, k=k)
            live.remove(k)
        s.op("decode", **dec)
        iters(3)
    for k in list(live):                                 # emptied again
        s.op("del", h=1, k=k)
    live = []
    s.op("decode", **dec)
    iters(6)
    k = s.key_in_bucket(8, n, special[-1])
    s.op("put", h=1, k=k, v=vids[0])
    iters(2)
    s.op("new_process")
    s.op("open_db", db=0, dir="d")
    s.op("map", h=1, db=0, name="m", kt=kt)
    iters(2)
    return s


def _mk_keys(s, rng, kt, count, lens=None):
    if kt in ("u64", "i64", "vu64"):
        return typed_keys(s, rng, kt, count)
    out = []
    while len(out) < count:
        k = s.key(rng.choice(lens or [1, 4, 8, 10, 11, 16, 30, 100]))
        if k:
            out.append(k)
    return out


REOPEN_PARAMS = [None, {"buckets": ["BucketsSize", 1]}, {"buckets": ["BucketsSize", 1024]}, {"buckets": ["Capacity", 4]},
                 {"buckets": ["Capacity", 1000]}, {"buckets": ["Default"]},
                 {"buckets": ["BucketsSize", 16], "key_buf": ["Size", 0], "val_buf": ["Size", 262144], "htx_buf": ["Auto"]},
                 {"key_buf": ["Auto"], "val_buf": ["PerMille", 1000], "htx_buf": ["Size", 1048576]}]


def gen_reopen(seed, idbase=0, nops=300, nkeys=40, nb=("BucketsSize", 64), kt="bytes", closes=8, name="reopen"):
    """C02: clean close and reopen at random points (also right after deletes / overwrites), with
    parameters drawn independently of the creation parameters, in-process and in a new process."""
    rng = random.Random(seed)
    s = Script(idbase, design=False, name=name)
    s.meta.update(kind="reopen", seed=seed, nb=list(nb), kt=kt)
    keys = _mk_keys(s, rng, kt, nkeys)
    vids = [s.newval(x) for x in rng.sample(SMALL_VALS, 6) + rng.sample(LARGE_VALS, 3) + [16384, 140000]]
    s.op("open_db", db=0, dir="d")
    s.op("map", h=1, db=0, name="m", kt=kt, params={"buckets": list(nb)})
    close_at = sorted(rng.sample(range(5, nops), closes))
    for i in range(nops):
        r = rng.random()
        k = rng.choice(keys)
        if r < 0.5:
            s.op("put", h=1, k=k, v=rng.choice(vids))
        elif r < 0.75:
            s.op("del", h=1, k=k)
        elif r < 0.9:
            s.op("get", h=1, k=k)
        else:
            s.op("len", h=1)
        if i in close_at:
            # an update right before the close half of the time
            if rng.random() < 0.5:
                s.op(rng.choice(["put", "del"]), h=1, k=rng.choice(keys), **({} if False else {}))
                if s.ops[-1]["op"] == "put":
                    s.ops[-1]["v"] = rng.choice(vids)
            how = rng.choice(["drop_all", "new_process"])
            s.op(how)
            s.op("decode", dir="d", name="m", native=True)
            if rng.random() < 0.4:
                s.op("child_dump", dir="d", name="m", kt=kt, params=rng.choice(REOPEN_PARAMS))
            s.op("open_db", db=0, dir="d")
            s.op("map", h=1, db=0, name="m", kt=kt, params=rng.choice(REOPEN_PARAMS))
            s.op("dump", h=1)
            s.op("iter", h=1, flavour=rng.choice(FLAVOURS))
    s.op("new_process")
    s.op("decode", dir="d", name="m", native=True)
    s.op("child_dump", dir="d", name="m", kt=kt, params=rng.choice(REOPEN_PARAMS))
    return s


def gen_sync(seed, idbase=0, nops=160, nmaps=2, kill=False, name="sync"):
    """C03: every successful flush / sync_data / sync_all (map level and database level) is a crash
    point: the directory is copied while all handles are alive and the copy is opened in another
    process; with kill=True the writer is SIGKILLed right after a sync returned."""
    rng = random.Random(seed)
    s = Script(idbase, design=False, name=name)
    s.meta.update(kind="sync", seed=seed, kill=kill)
    kts = [rng.choice(KTS) for _ in range(nmaps)]
    s.op("open_db", db=0, dir="d")
    maps = []
    for i, kt in enumerate(kts):
        h = i + 1
        nb = rng.choice([["BucketsSize", 8], ["BucketsSize", 64], ["Capacity", 100], ["BucketsSize", 1]])
        s.op("map", h=h, db=0, name="m%d" % i, kt=kt, params={"buckets": nb})
        keys = _mk_keys(s, rng, kt, 12)
        maps.append(dict(h=h, name="m%d" % i, kt=kt, keys=keys))
    # values in two lengths per size class, so that overwrites often stay in place
    vids = [s.newval(x) for x in (3, 5, 9, 20, 21, 100, 101, 1100, 1101, 5000, 0)]
    snap = 0

    def snapshot(which):
        nonlocal snap
        snap += 1
        d = "snap%d" % snap
        s.op("copy_dir", **{"from": "d", "to": d})
        for m in which:
            s.op("child_dump", dir=d, name=m["name"], kt=m["kt"], **{"as": "C03.snapshot"})
        s.op("rm_dir", dir=d)

    # a map that was only created: flush, snapshot -> valid empty map
    m0 = rng.choice(maps)
    s.op(rng.choice(["flush", "sync_all", "sync_data"]), h=m0["h"])
    snapshot([m0])
    kill_at = rng.randrange(nops // 2, nops) if kill else -1
    for i in range(nops):
        m = rng.choice(maps)
        r = rng.random()
        k = rng.choice(m["keys"])
        if r < 0.55:
            s.op("put", h=m["h"], k=k, v=rng.choice(vids))
        elif r < 0.72:
            s.op("del", h=m["h"], k=k)
        elif r < 0.80:
            s.op("get", h=m["h"], k=k)
        else:
            if rng.random() < 0.7:
                s.op(rng.choice(["flush", "sync_all", "sync_data"]), h=m["h"])
                snapshot([m])
            else:
                s.op(rng.choice(["db_sync_all", "db_sync_data"]), db=0)
                snapshot(maps)
            # often an in-place overwrite / delete and an immediate second sync
            if rng.random() < 0.6:
                k2 = rng.choice(m["keys"])
                s.op(rng.choice(["put", "put", "del"]), h=m["h"], k=k2)
                if s.ops[-1]["op"] == "put":
                    s.ops[-1]["v"] = rng.choice(vids)
                s.op(rng.choice(["flush", "sync_all", "sync_data"]), h=m["h"])
                snapshot([m])
        if i == kill_at:
            s.op(rng.choice(["db_sync_all", "db_sync_data"]), db=0)
            s.op("kill_here")
            s.op("open_db", db=0, dir="d")
            for mm in maps:
                s.op("map", h=mm["h"], db=0, name=mm["name"], kt=mm["kt"], **{"as": "C03.snapshot"})
                s.op("dump", h=mm["h"], **{"as": "C03.snapshot"})
    s.op("new_process")
    for mm in maps:
        s.op("decode", dir="d", name=mm["name"], native=True)
        s.op("child_dump", dir="d", name=mm["name"], kt=mm["kt"])
    return s


def gen_fault(seed, idbase=0, shape="val", threshold=0, syncop="flush", name="fault"):
    """C16: the OS refuses writes beyond `threshold` bytes (RLIMIT_FSIZE) during one flush/sync; full
    buffering, so only the flush writes.  Then: reads, lift, flush again, snapshot."""
    rng = random.Random(seed)
    s = Script(idbase, design=False, name=name)
    s.meta.update(kind="fault", seed=seed, shape=shape, threshold=threshold, syncop=syncop)
    full = {"key_buf": ["PerMille", 1000], "val_buf": ["PerMille", 1000], "htx_buf": ["PerMille", 1000]}
    if shape == "val":
        nb, klens, vlens, n1, n2 = ["BucketsSize", 16], [8, 10, 12], [3000, 5000, 20000, 70000], 6, 14
    elif shape == "key":
        nb, klens, vlens, n1, n2 = ["BucketsSize", 16], [3000, 9000, 20000, 60000], [3, 10, 20], 6, 14
    else:
        nb, klens, vlens, n1, n2 = ["BucketsSize", 32768], [8, 10, 12], [3, 10, 20, 100], 8, 24
    params = dict(full, buckets=nb)
    n = layout_buckets(nb)
    s.op("open_db", db=0, dir="d")
    s.op("map", h=1, db=0, name="m", kt="bytes", params=params)
    keys = []
    for _ in range(n1 + n2):
        k = s.key(rng.choice(klens))
        if k:
            keys.append(k)
    vids = [s.newval(x) for x in vlens] + [s.newval(x + 1) for x in vlens]
    for k in keys[:n1]:
        s.op("put", h=1, k=k, v=rng.choice(vids))
    s.op("flush", h=1)
    for k in keys[n1:]:
        s.op("put", h=1, k=k, v=rng.choice(vids))
    for k in rng.sample(keys[:n1], 3):
        s.op(rng.choice(["put", "del"]), h=1, k=k)
        if s.ops[-1]["op"] == "put":
            s.ops[-1]["v"] = rng.choice(vids)
    s.op("rlimit_fsize", bytes=threshold)
    s.op(syncop, h=1)
    s.op("rlimit_fsize")                       # lift
    s.op("copy_dir", **{"from": "d", "to": "snapA"})
    s.op("child_dump", dir="snapA", name="m", kt="bytes", **{"as": "C16.reported"})
    s.op("rm_dir", dir="snapA")
    s.op("dump", h=1, **{"as": "C16.view"})     # the in-memory view stays fully correct
    s.op("iter", h=1, flavour="iter")
    s.op(rng.choice(["flush", "sync_all", "sync_data"]), h=1)
    s.op("copy_dir", **{"from": "d", "to": "snapB"})
    s.op("child_dump", dir="snapB", name="m", kt="bytes", **{"as": "C16.recover"})
    s.op("rm_dir", dir="snapB")
    for k in rng.sample(keys, 4):
        s.op("put", h=1, k=k, v=rng.choice(vids))
    s.op("dump", h=1)
    s.op("new_process")
    s.op("decode", dir="d", name="m", native=True)
    s.op("child_dump", dir="d", name="m", kt="bytes")
    return s


def fault_thresholds(shape, count, rng):
    """distinct limits between 'nothing fits' and 'everything fits'"""
    base = [0, 1, 127, 128, 129, 191, 192, 193, 200, 256, 131071, 131072, 131073, 262143, 262144, 262145]
    if shape == "htx":
        hl = 128 + 8 * 32768 + 32768 // 8
        base += [hl - 1, hl, hl + 1, 128 + 8 * 32768 - 1, 128 + 8 * 32768, 128 + 8 * 32768 + 1]
        top = hl + 4096
    else:
        top = 600000
    grid = [rng.randrange(0, top) for _ in range(count)] + [rng.randrange(192, 20000) for _ in range(count // 2)]
    out = []
    for t in base + grid:
        if t not in out:
            out.append(t)
    return out
