"""Python transcription of spec/AbyLayout.tla and the placement hash (used only to GENERATE
workloads that hit boundaries and collisions; verdicts never come from here)."""
M64 = (1 << 64) - 1
CLASSES = [16, 24, 32, 48, 64, 80, 96, 112, 128, 256, 384, 512, 640, 768, 896, 1024]

def enc_len(v):
    for i, lim in enumerate((1 << 7, 1 << 14, 1 << 21, 1 << 28, 1 << 35, 1 << 42, 1 << 49, 1 << 56)):
        if v < lim:
            return i + 1
    return 9

def roundup(x):
    for c in CLASSES[:15]:
        if x <= c:
            return c
    return ((x + 128) // 128) * 128

def val_slot(vlen):
    need = enc_len(vlen) + vlen
    return roundup(enc_len((need + 7) // 8) + need)

def key_slot(klen, voff, nxt):
    need = enc_len(klen) + klen + enc_len(voff) + enc_len(nxt)
    return roundup(enc_len((need + 7) // 8) + need)

def xs(a):
    a ^= a >> 12
    a ^= (a << 25) & M64
    a ^= a >> 27
    return a

def khash(key: bytes) -> int:
    def write(h, bs):
        for i in range(0, len(bs), 8):
            h = xs((h + int.from_bytes(bs[i:i + 8], 'big')) & M64)
        return h
    return write(write(0, len(key).to_bytes(8, 'little')), key)

def gen_bytes(tag: int, id_: int, ln: int) -> bytes:
    """must equal harness tables.rs gen_bytes"""
    idb = (id_ & 0xffffffff).to_bytes(4, 'big')
    x = ((id_ & 0xffffffff) * 2654435761 + tag) & 0xffffffff
    v = bytearray()
    for i in range(ln):
        if i < 4 and ln >= 4:
            v.append(idb[i])
        elif i == 4:
            v.append(tag)
        else:
            x ^= (x << 13) & 0xffffffff
            x ^= x >> 17
            x ^= (x << 5) & 0xffffffff
            v.append(x & 0xff)
    if ln < 4:
        for i in range(ln):
            v[i] = ((id_ >> (8 * i)) & 0xff) ^ ((tag * (i + 1)) & 0xff)
    return bytes(v)

def val_boundaries(limit=6000):
    """value lengths at which the slot size changes (both sides)"""
    out = set()
    prev = val_slot(0)
    for l in range(1, limit):
        s = val_slot(l)
        if s != prev:
            out.update((l - 1, l))
        prev = s
    return sorted(out)

def vu64_encode(value: int) -> bytes:
    bits = value.bit_length()
    ln = 1 if bits <= 7 else 2 if bits <= 14 else 3 if bits <= 21 else 4 if bits <= 28 else 5 if bits <= 35 else 6 if bits <= 42 else 7 if bits <= 49 else 8 if bits <= 56 else 9
    if ln == 1:
        return bytes([value])
    if ln >= 8:
        return bytes([0xFE if ln == 8 else 0xFF]) + value.to_bytes(8, 'little')[:ln - 1]
    low = 8 - ln
    prefix = (0xFF << (9 - ln)) & 0xFF
    return bytes([prefix | (value & ((1 << low) - 1))]) + (value >> low).to_bytes(8, 'little')[:ln - 1]


def _inv_shr(y, s):
    x = y
    t = y >> s
    while t:
        x ^= t
        t >>= s
    return x

def _inv_shl(y, s):
    x = y
    t = (y << s) & M64
    while t:
        x ^= t
        t = (t << s) & M64
    return x

def xs_inv(a):
    a = _inv_shr(a, 27)
    a = _inv_shl(a, 25)
    a = _inv_shr(a, 12)
    return a

def key_for_hash(ln, h, rng):
    """bytes of a key of length ln >= 8 whose placement hash is exactly h"""
    assert ln >= 8
    h0 = xs(int.from_bytes(ln.to_bytes(8, 'little'), 'big'))
    nchunks = (ln + 7) // 8
    last_len = ln - 8 * (nchunks - 1)
    if nchunks == 1:
        c = (xs_inv(h) - h0) & M64
        return c.to_bytes(8, 'big')
    # middle chunks random, last chunk random, first chunk solved
    mids = [rng.getrandbits(64) for _ in range(nchunks - 2)]
    last = rng.getrandbits(8 * last_len)
    # walk backwards: state before last chunk
    st = (xs_inv(h) - last) & M64
    for m in reversed(mids):
        st = (xs_inv(st) - m) & M64
    c1 = (xs_inv(st) - h0) & M64
    out = c1.to_bytes(8, 'big') + b"".join(m.to_bytes(8, 'big') for m in mids) + last.to_bytes(last_len, 'big')
    assert len(out) == ln and khash(out) == h
    return out
