"""Orchestration helpers: build the harness, run scripts against the crate, run TLC."""
import json
import os
import re
import shutil
import subprocess
import sys
import time
from concurrent.futures import ThreadPoolExecutor

VERIF = os.environ.get("VERIF_ROOT") or os.path.dirname(os.path.dirname(os.path.dirname(os.path.abspath(__file__))))
SPEC = VERIF + "/spec"
HARNESS = os.environ.get("ABY_HARNESS_DIR") or (VERIF + "/harness")
OUT = os.environ.get("ABY_OUT") or (VERIF + "/out")
JAVA = ["java", "-XX:+UseSerialGC", "-cp",
        "/opt/veriftools/tla/tla2tools.jar:/opt/veriftools/tla/CommunityModules-deps.jar"]
NCPU = os.cpu_count() or 4


class ToolError(Exception):
    pass


def log(*a):
    print(*a, flush=True)


def build_harness(profile="checked", features=None):
    """cargo build of the harness against /repo's working tree; `features` selects an alternative cargo
    feature set of the crate under test (own target directory)"""
    t0 = time.time()
    env = dict(os.environ, CARGO_NET_OFFLINE="true")
    cmd = ["cargo", "build", "--offline", "--profile", profile]
    tdir = "target"
    if features:
        tdir = "target_" + features
        cmd += ["--no-default-features", "--features", "hooks " + features, "--target-dir", tdir]
    p = subprocess.run(cmd, cwd=HARNESS, env=env, stdout=subprocess.PIPE, stderr=subprocess.STDOUT, text=True)
    if p.returncode != 0:
        sys.stdout.write(p.stdout[-4000:])
        raise ToolError("cargo build of the harness against /repo failed (profile %s, features %s)" % (profile, features))
    exe = "%s/%s/%s/abyverif" % (HARNESS, tdir, profile)
    if not os.path.exists(exe):
        raise ToolError("harness binary missing: " + exe)
    log("[build] harness (%s%s) built against /repo working tree in %.1fs" % (profile, " " + features if features else "", time.time() - t0))
    return exe


def fresh_dir(path):
    shutil.rmtree(path, ignore_errors=True)
    os.makedirs(path, exist_ok=True)
    return path


def run_one_script(exe, script, workdir, idx, op_timeout=20, max_slots=400, strace=False):
    """writes script, runs it, returns (trace_path, script_path)"""
    sp = "%s/s%04d.ndjson" % (workdir, idx)
    tp = "%s/t%04d.ndjson" % (workdir, idx)
    root = "%s/root%04d" % (workdir, idx)
    with open(sp, "w") as f:
        f.write(script.dumps() if hasattr(script, "dumps") else script)
    shutil.rmtree(root, ignore_errors=True)
    env = dict(os.environ)
    if strace:
        env["ABYVERIF_STRACE"] = "1"
    p = subprocess.run([exe, "run", root, sp, tp, str(op_timeout), str(max_slots)], env=env,
                       stdout=subprocess.PIPE, stderr=subprocess.PIPE, text=True)
    shutil.rmtree(root, ignore_errors=True)
    if p.returncode != 0:
        raise ToolError("harness failed on %s: %s" % (sp, (p.stderr or p.stdout)[-600:]))
    return tp, sp


def run_scripts(exe, scripts, workdir, op_timeout=20, max_slots=400, jobs=None, strace=False):
    jobs = jobs or max(2, NCPU - 2)
    with ThreadPoolExecutor(max_workers=jobs) as ex:
        futs = [ex.submit(run_one_script, exe, s, workdir, i, op_timeout, max_slots, strace) for i, s in enumerate(scripts)]
        return [f.result() for f in futs]


def concat_traces(trace_paths, out_path):
    """concatenate histories into one trace file; returns per-history event counts"""
    counts = []
    with open(out_path, "w") as out:
        for tp in trace_paths:
            n = 0
            with open(tp) as f:
                for line in f:
                    if line.strip():
                        out.write(line if line.endswith("\n") else line + "\n")
                        n += 1
            counts.append(n)
    return counts


VERDICT_RE = re.compile(r'^<<"(VERDICT|SPEC-DRIFT|TALLY|TRACE-DONE|TRACE-STUCK)", (.*)>>$')


def tlc_trace(trace_path, metadir, xmx="2g", timeout=1800):
    """validate one trace file with AbyTrace; returns dict(verdicts, drifts, tally, done, raw_tail)"""
    env = dict(os.environ, TRACE=trace_path)
    cmd = JAVA[:2] + ["-Xss1g", "-Xmx" + xmx, "-XX:CICompilerCount=2", "-XX:-UsePerfData"] + JAVA[2:] + [
        "tlc2.TLC", "-nowarning", "-workers", "1", "-config", "AbyTrace.cfg", "-metadir", metadir,
        "-cleanup", "-noGenerateSpecTE", "AbyTrace.tla"]
    t0 = time.time()
    try:
        p = subprocess.run(cmd, cwd=SPEC, env=env, stdout=subprocess.PIPE, stderr=subprocess.STDOUT, text=True, timeout=timeout)
    except subprocess.TimeoutExpired:
        raise ToolError("TLC trace validation timed out on " + trace_path)
    res = {"verdicts": [], "drifts": [], "tally": {}, "done": None, "stuck": None, "wall": time.time() - t0}
    for line in p.stdout.splitlines():
        m = VERDICT_RE.match(line.strip())
        if not m:
            continue
        kind, body = m.group(1), m.group(2)
        if kind in ("VERDICT", "SPEC-DRIFT", "TALLY"):
            try:
                js = json.loads(json.loads(body))   # TLC prints the JSON text as a TLA+ string
            except Exception:
                raise ToolError("cannot parse TLC line: " + line[:300])
            if kind == "VERDICT":
                res["verdicts"].append(js)
            elif kind == "SPEC-DRIFT":
                res["drifts"].append(js)
            else:
                key = json.dumps(js)
                res["tally"][key] = res["tally"].get(key, 0) + 1
        elif kind == "TRACE-DONE":
            res["done"] = int(body)
        elif kind == "TRACE-STUCK":
            res["stuck"] = body
    shutil.rmtree(metadir, ignore_errors=True)
    if res["done"] is None:
        tail = "\n".join(p.stdout.splitlines()[-40:])
        raise ToolError("TLC did not accept/finish trace %s (stuck=%s):\n%s" % (trace_path, res["stuck"], tail))
    return res


MC_STATS_RE = re.compile(r'^(\d+) states generated, (\d+) distinct states found, (\d+) states left on queue')


def tlc_mc(module, cfg, workers=8, xmx="8g", timeout=3600, expect_violation=None, extra=None):
    """run a model-checking configuration; returns dict(states, transitions, violated, wall)"""
    md = "%s/mc_%s_%d" % (OUT, cfg.replace(".cfg", ""), os.getpid())
    cmd = JAVA[:2] + ["-Xss256m", "-Xmx" + xmx] + JAVA[2:] + [
        "tlc2.TLC", "-nowarning", "-workers", str(workers), "-config", cfg, "-metadir", md,
        "-cleanup", "-noGenerateSpecTE"] + (extra or []) + [module]
    t0 = time.time()
    try:
        p = subprocess.run(cmd, cwd=SPEC, stdout=subprocess.PIPE, stderr=subprocess.STDOUT, text=True, timeout=timeout)
    except subprocess.TimeoutExpired:
        shutil.rmtree(md, ignore_errors=True)
        raise ToolError("TLC model checking timed out: %s" % cfg)
    shutil.rmtree(md, ignore_errors=True)
    out = p.stdout
    res = {"cfg": cfg, "states": 0, "transitions": 0, "violated": None, "wall": round(time.time() - t0, 1)}
    for line in out.splitlines():
        m = MC_STATS_RE.match(line.strip())
        if m:
            res["transitions"] = int(m.group(1))
            res["states"] = int(m.group(2))
        m2 = re.match(r'^Error: (Invariant|Action property|Temporal properties|Property) ?(\S*) ', line.strip())
        if m2 and res["violated"] is None:
            res["violated"] = line.strip()
    ok = "Model checking completed. No error has been found." in out
    msim = re.search(r'The number of states generated: (\d+)', out)
    if msim:
        # random simulation (-simulate): states checked along random behaviours, no closure
        res["states"] = res["transitions"] = int(msim.group(1))
        res["simulation"] = True
        ok = "Error:" not in out and "Finished in" in out
    if expect_violation:
        if res["violated"] is None or expect_violation not in res["violated"]:
            raise ToolError("witness property %s was NOT violated in %s: the branch it guards is unreachable (vacuity)\n%s"
                            % (expect_violation, cfg, "\n".join(out.splitlines()[-15:])))
    elif not ok:
        raise ToolError("model checking of %s failed (the model itself, independent of /repo):\n%s"
                        % (cfg, "\n".join(out.splitlines()[-40:])))
    return res


def tlapm(module, timeout=1800, threads=8):
    """check the proofs of spec/proofs/<module> with the TLA+ proof system (SMT back end); every obligation
    must be proved.  The modules they are about are taken from spec/ itself (-I ..)."""
    cache = "%s/tlacache_%d" % (OUT, os.getpid())
    t0 = time.time()
    # the back-end time limits are wall-clock: on a saturated machine an obligation can run out of time, so a
    # failed attempt is repeated once with all limits stretched (proved obligations are kept in the cache)
    for stretch in ("1", "6"):
        try:
            p = subprocess.run(["tlapm", "-I", "..", "--cache-dir", cache, "--threads", str(threads), "--stretch", stretch, module],
                               cwd=SPEC + "/proofs", stdout=subprocess.PIPE, stderr=subprocess.STDOUT, text=True, timeout=timeout)
        except subprocess.TimeoutExpired:
            shutil.rmtree(cache, ignore_errors=True)
            raise ToolError("tlapm timed out: %s" % module)
        if re.search(r'All (\d+) obligations? proved', p.stdout):
            break
    shutil.rmtree(cache, ignore_errors=True)
    m = re.search(r'All (\d+) obligations? proved', p.stdout)
    if not m:
        raise ToolError("proofs of %s were not all accepted (the specification itself, independent of /repo):\n%s"
                        % (module, "\n".join(l for l in p.stdout.splitlines() if not l.startswith(("Called from", "Raised")))[-3000:]))
    return {"module": module, "obligations": int(m.group(1)), "wall": round(time.time() - t0, 1)}


def run_bfs(exe, spec, workdir, max_states, per_file):
    """breadth-first exploration of the real state graph; returns ([(trace, specpath)...], info)"""
    sp = workdir + "/spec.bfs.json"
    with open(sp, "w") as f:
        json.dump(spec, f)
    root = workdir + "/bfsroot"
    p = subprocess.run([exe, "bfs", root, sp, workdir + "/bfs_", str(max_states), str(per_file)],
                       stdout=subprocess.PIPE, stderr=subprocess.PIPE, text=True)
    shutil.rmtree(root, ignore_errors=True)
    if p.returncode != 0:
        raise ToolError("harness bfs failed: %s" % (p.stderr or p.stdout)[-600:])
    info = json.loads(p.stdout.strip().splitlines()[-1])
    info["kind"] = spec.get("kind")
    files = sorted(f for f in os.listdir(workdir) if f.startswith("bfs_") and f.endswith(".ndjson"))
    return [(workdir + "/" + f, sp) for f in files], info
