"""Per-property plans: which model-checking configurations and which workloads decide a property,
and which named conjuncts of the trace specification are attributed to it."""
from . import gen
import os
VERIF_ROOT = os.environ.get("VERIF_ROOT") or os.path.dirname(os.path.dirname(os.path.dirname(os.path.abspath(__file__))))

IDSTEP = 100000   # key/value id namespace per history (several histories share one TLC run)

COMMON_ASSUME = [
    "TLC 1.8 and the CommunityModules (Json, IOUtils, Bitwise, SequencesExt) are trusted",
    "the independent decoder (harness/src/decode.rs) and the id tables are trusted; on every small state the "
    "decoder's native monitor and the TLA+ formulas must agree (TOOL.native_disagrees otherwise)",
    "64-bit little-endian Linux; page cache semantics of the kernel for snapshots taken while handles are open",
]


def mc_store(tier, extra_q=(), extra_t=()):
    q = [dict(module="MCStore_q.tla", cfg="MCStore_q.cfg", workers=8)] + list(extra_q)
    if tier == "thorough":
        q += [dict(module="MCStore_t.tla", cfg="MCStore_t.cfg", workers=12, xmx="24g", timeout=7200),
              # a larger alphabet (4 keys x 5 value sizes, 2 buckets): random simulation, ~1e6 states
              dict(module="MCStore_3k.tla", cfg="MCStore_3k.cfg", workers=12, xmx="8g", timeout=3600,
                   extra=["-simulate", "num=1500", "-depth", "80", "-seed", os.environ.get("VERIF_SEED", "20260926")])] + list(extra_t)
    return q


def l2_batch(seed, count, base=0, **kw):
    out = []
    for i in range(count):
        nb = [("BucketsSize", 1), ("BucketsSize", 2), ("BucketsSize", 8), ("Capacity", 20), ("BucketsSize", 64), ("BucketsSize", 3), ("BucketsSize", 100)][i % 7]
        # mostly byte keys (bucket-targeted), every key type once in ten histories
        kt = kw.pop("kt", None) or ["bytes", "bytes", "string", "bytes", "u64", "bytes", "i64", "bytes", "vu64", "string"][i % 10]
        out.append(gen.gen_l2(seed * 1000 + i, idbase=(base + i) * IDSTEP, nb=nb, name="l2_%d" % i, kt=kt,
                              one_bucket=(i % 2 == 0), ballast=(16300 if i % 3 == 1 else 0), **kw))
    return out


def l1_batch(seed, count, nops, base=0, **kw):
    out = []
    for i in range(count):
        nb = [("BucketsSize", 64), ("BucketsSize", 1), ("Capacity", 300), ("BucketsSize", 1024)][i % 4]     # one bucket: a chain of hundreds
        kt = ["bytes", "string", "bytes", "u64", "vu64", "i64"][i % 6]
        out.append(gen.gen_l1(seed * 1000 + 500 + i, idbase=(base + i) * IDSTEP, nops=nops, nb=nb, kt=kt,
                              name="l1_%d" % i, **kw))
    return out


def reloc_batch(seed, count, nops, base=0, width=16384, kts=("bytes",), **kw):
    # every second history: seven colliding keys and a key file above 128 KiB (3-byte links)
    return [gen.gen_reloc(seed * 1000 + 800 + i, idbase=(base + i) * IDSTEP, nops=nops, width=width, name="reloc_%d" % i, kt=kts[i % len(kts)],
                          kballast=(3 if i % 2 else 1), nkeys=(7 if i % 2 else 5), **kw)
            for i in range(count)]


def large_batch(seed, count, nops, base=0):
    """small universes whose values all live on the shared large free list (first fit, several sizes)"""
    return [gen.gen_l2(seed * 1000 + 950 + i, idbase=(base + i) * IDSTEP, nops=nops, nkeys=6, nb=("BucketsSize", 4),
                       vals=[1000, 1100, 1500, 2000, 3000, 4000, 0, 20], klens=[8, 10, 12, 900, 1500, 9], name="l2large_%d" % i)
            for i in range(count)]


def wl_core(tier, seed):
    if tier == "quick":
        return [("l2", l2_batch(seed, 10, nops=90), dict(per_tlc=2, tlc_jobs=6)),
                # the same kind of history in a build WITHOUT debug assertions: what a release user gets
                # (a debug assertion that fires first would hide the corruption behind a panic)
                ("l2large_fast", large_batch(seed, 4, 120, base=80), dict(per_tlc=1, tlc_jobs=4, profile="fast")),
                ("l2large", large_batch(seed + 1, 2, 120, base=90), dict(per_tlc=1, tlc_jobs=2)),
                ("l2_fast", l2_batch(seed + 2, 3, nops=90, base=95), dict(per_tlc=1, tlc_jobs=3, profile="fast")),
                ("reloc", reloc_batch(seed, 4, 120, base=40), dict(per_tlc=1, tlc_jobs=4)),
                ("l1", l1_batch(seed, 3, 3000, base=20), dict(per_tlc=1, tlc_jobs=3, max_slots=300)),
                # sessions: close and reopen with parameters drawn independently of the creation parameters
                ("reopen", [gen.gen_reopen(seed * 1000 + 150 + i, idbase=(30 + i) * IDSTEP, nops=150, nb=nb, kt=gen.KTS[i % 5], closes=5, name="reopen_%d" % i)
                            for i, nb in enumerate((("BucketsSize", 8), ("Capacity", 64), ("BucketsSize", 1)))], dict(per_tlc=1, tlc_jobs=3, max_slots=300))]
    return [("l2", l2_batch(seed, 60, nops=200), dict(per_tlc=4, tlc_jobs=8)),
            ("reopen", [gen.gen_reopen(seed * 1000 + 150 + i, idbase=(700 + i) * IDSTEP, nops=800, nb=nb, kt=gen.KTS[i % 5], closes=20, name="reopen_%d" % i)
                        for i, nb in enumerate((("BucketsSize", 8), ("Capacity", 64), ("BucketsSize", 1), ("BucketsSize", 4096), ("Capacity", 3), ("BucketsSize", 64)) * 3)],
             dict(per_tlc=3, tlc_jobs=6, max_slots=300)),
            ("l2large_fast", large_batch(seed, 16, 300, base=600), dict(per_tlc=2, tlc_jobs=8, profile="fast")),
            ("l2large", large_batch(seed + 1, 8, 300, base=650), dict(per_tlc=2, tlc_jobs=4)),
            ("reloc", reloc_batch(seed, 24, 400, base=300), dict(per_tlc=2, tlc_jobs=8)),
            ("reloc2m", reloc_batch(seed + 7, 6, 300, base=400, width=2097152), dict(per_tlc=1, tlc_jobs=6)),
            ("l1", l1_batch(seed, 6, 100000, base=100, reopen_every=20000, huge=True), dict(per_tlc=1, tlc_jobs=6, max_slots=300, xmx="8g", op_timeout=60)),
            ("l1fast", l1_batch(seed + 1, 4, 20000, base=200, reopen_every=5000), dict(per_tlc=1, tlc_jobs=4, max_slots=300, profile="fast"))]


def mc_reloc(tier):
    wit = [dict(module="MCStore_w16k.tla", cfg="MCStore_w16k_%s.cfg" % c, workers=4, witness=w, timeout=600)
           for c, w in (("wit1", "NoOtherMove1"), ("wit2", "NoOtherMove2"), ("witk", "NoKeyMove"), ("witv", "NoValMove"))]
    q = [dict(module="MCStore_q.tla", cfg="MCStore_q.cfg", workers=8),
         dict(module="MCStore_w16k.tla", cfg="MCStore_w16k_q.cfg", workers=8)] + wit
    if tier == "thorough":
        q += [dict(module="MCStore_t.tla", cfg="MCStore_t.cfg", workers=12, xmx="24g", timeout=7200),
              dict(module="MCStore_w16k.tla", cfg="MCStore_w16k_t.cfg", workers=12, xmx="24g", timeout=7200)]
    return q


def wl_reloc(tier, seed):
    if tier == "quick":
        return [("reloc16m", reloc_batch(seed + 5, 1, 40, base=70, width=17 * 1024 * 1024), dict(per_tlc=1, tlc_jobs=1, op_timeout=120, xmx="4g")),
                ("bfs_w16k", [], dict(bfs=gen.bfs_spec("w16k_q", idbase=900 * IDSTEP), max_states=4000, edges_per_file=1200, tlc_jobs=8, match_cfg="MCStore_w16k_q.cfg")),
                ("reloc", reloc_batch(seed, 8, 150, base=40), dict(per_tlc=1, tlc_jobs=8)),
                ("l2", l2_batch(seed + 3, 4, nops=80, base=60), dict(per_tlc=1, tlc_jobs=4))]
    return [("bfs_q", [], dict(bfs=gen.bfs_spec("q", idbase=901 * IDSTEP), max_states=100000, edges_per_file=4000, tlc_jobs=12, match_cfg="MCStore_q.cfg")),
            ("bfs_w16k", [], dict(bfs=gen.bfs_spec("w16k_q", idbase=900 * IDSTEP), max_states=100000, edges_per_file=1200, tlc_jobs=12, match_cfg="MCStore_w16k_q.cfg")),
            ("bfs_w16k3", [], dict(bfs=gen.bfs_spec("w16k_t", idbase=902 * IDSTEP), max_states=15000, edges_per_file=3000, tlc_jobs=12, match_cfg="MCStore_w16k_t.cfg")),
            ("bfs_w2m", [], dict(bfs=gen.bfs_spec("w2m_q", idbase=903 * IDSTEP), max_states=3000, edges_per_file=800, tlc_jobs=12, xmx="6g")),
            ("reloc", reloc_batch(seed, 40, 400, base=300), dict(per_tlc=2, tlc_jobs=8)),
            ("reloc2m", reloc_batch(seed + 7, 8, 300, base=400, width=2097152 + 4096), dict(per_tlc=1, tlc_jobs=8)),
            ("reloc16m", reloc_batch(seed + 5, 4, 200, base=70, width=17 * 1024 * 1024), dict(per_tlc=1, tlc_jobs=4, op_timeout=120, xmx="4g")),
            ("l2", l2_batch(seed + 3, 30, nops=200, base=500), dict(per_tlc=3, tlc_jobs=8))]


def mc_scan(tier):
    q = [dict(module="MCScan.tla", cfg="MCScan_%s.cfg" % c, workers=8) for c in ("all1", "all2", "all4", "all8", "all16", "n32", "n128q", "n256")]
    q.append(dict(module="MCScan.tla", cfg="MCScan_pinned128.cfg", workers=2, witness="ScanOK"))
    q.append(dict(module="MCStore_q.tla", cfg="MCStore_q.cfg", workers=8))
    if tier == "thorough":
        q += [dict(module="MCScan.tla", cfg="MCScan_%s.cfg" % c, workers=12, xmx="16g", timeout=7200) for c in ("n64", "n128", "n256t", "n1024")]
    return q


def iter_batch(seed, sizes, base=0, rounds=4):
    out = []
    for i, nb in enumerate(sizes):
        out.append(gen.gen_iter(seed * 1000 + 300 + i, idbase=(base + i) * IDSTEP, nb=nb, rounds=rounds, name="iter_%s%d" % (nb[0][0], nb[1])))
    return out


ITER_SIZES_Q = [("BucketsSize", 1), ("BucketsSize", 2), ("BucketsSize", 4), ("BucketsSize", 8), ("BucketsSize", 16), ("BucketsSize", 64),
                ("BucketsSize", 128), ("BucketsSize", 256), ("BucketsSize", 1024), ("Capacity", 12), ("Capacity", 100), ("BucketsSize", 65536)]


def wl_iter(tier, seed):
    if tier == "quick":
        return [("iter", iter_batch(seed, ITER_SIZES_Q), dict(per_tlc=2, tlc_jobs=6)),
                ("iterpairs", [gen.gen_iter_pairs(seed * 1000 + 350 + i, idbase=(70 + i) * IDSTEP, n=n, name="iterpairs_%d" % n) for i, n in enumerate((128, 256, 4096))],
                 dict(per_tlc=1, tlc_jobs=3)),
                ("l2", l2_batch(seed + 5, 4, nops=60, base=60, iter_every=2), dict(per_tlc=1, tlc_jobs=4)),
                # states produced by record relocation (key pieces moved, chains relinked), traversed after every step
                ("reloc", reloc_batch(seed + 3, 3, 100, base=90, iter_every=1), dict(per_tlc=1, tlc_jobs=3))]
    sizes = ITER_SIZES_Q * 4 + [("BucketsSize", 32), ("BucketsSize", 512), ("BucketsSize", 2048), ("BucketsSize", 4096), ("BucketsSize", 32768), ("Capacity", 57), ("Capacity", 7), ("Capacity", 1)] * 2
    return [("iter", iter_batch(seed, sizes, rounds=8), dict(per_tlc=4, tlc_jobs=8)),
            ("iterpairs", [gen.gen_iter_pairs(seed * 1000 + 350 + i, idbase=(70 + i) * IDSTEP, n=n, kt=gen.KTS[i % 2], name="iterpairs_%d_%d" % (n, i))
                           for i, n in enumerate((128, 128, 256, 256, 512, 1024, 4096, 65536, 1 << 20))], dict(per_tlc=1, tlc_jobs=8)),
            ("l2", l2_batch(seed + 5, 20, nops=150, base=200, iter_every=2), dict(per_tlc=2, tlc_jobs=8)),
            ("reloc", reloc_batch(seed + 3, 16, 300, base=300, iter_every=1), dict(per_tlc=2, tlc_jobs=8))]


def wl_reopen(tier, seed):
    import random
    rng = random.Random(seed)
    cnt, nops, closes = (8, 250, 6) if tier == "quick" else (60, 1500, 25)
    out = []
    for i in range(cnt):
        nb = rng.choice([("BucketsSize", 1), ("BucketsSize", 8), ("BucketsSize", 64), ("Capacity", 64), ("BucketsSize", 4096), ("Capacity", 3)])
        out.append(gen.gen_reopen(seed * 1000 + 100 + i, idbase=i * IDSTEP, nops=nops, nb=nb, kt=gen.KTS[i % 5], closes=closes, name="reopen_%d" % i))
    return [("reopen", out, dict(per_tlc=2 if tier == "quick" else 4, tlc_jobs=8, max_slots=300))]


def wl_sync(tier, seed):
    cnt, nops = (8, 100) if tier == "quick" else (80, 300)
    out = [gen.gen_sync(seed * 1000 + 200 + i, idbase=i * IDSTEP, nops=nops, nmaps=1 + i % 3, kill=(i % 3 == 2), name="sync_%d" % i) for i in range(cnt)]
    batches = [("sync", out, dict(per_tlc=2 if tier == "quick" else 5, tlc_jobs=8, max_slots=300))]
    # the same kind of scenarios with the OS syncs observed at syscall level (strace) instead of the hook
    n2 = 2 if tier == "quick" else 16
    out2 = [gen.gen_sync(seed * 1000 + 260 + i, idbase=(200 + i) * IDSTEP, nops=60 if tier == "quick" else 200, nmaps=1 + i % 3, kill=False, name="syncsys_%d" % i) for i in range(n2)]
    # record relocation (bucket head rewritten by an overwrite) followed by flush and a snapshot
    rel = [gen.gen_reloc(seed * 1000 + 280 + i, idbase=(300 + i) * IDSTEP, nops=80 if tier == "quick" else 300, name="syncreloc_%d" % i, snap=True)
           for i in range(3 if tier == "quick" else 16)]
    batches.append(("sync_reloc", rel, dict(per_tlc=1, tlc_jobs=6)))
    # round numbers of updates between two flushes
    sc = [gen.gen_sync_scale(seed * 1000 + 290 + i, idbase=(320 + i) * IDSTEP, segs=sg, kt=kt, name="syncscale_%d" % i)
          for i, (sg, kt) in enumerate([((1024, 512, 2048, 1000), "u64"), ((256, 4096, 128, 64), "bytes")] if tier == "quick" else
                                       [((1024, 512, 2048, 1000), "u64"), ((256, 4096, 128, 64), "bytes"), ((8192, 1, 16384), "string"), ((100, 1000, 10000, 65536), "vu64")])]
    batches.append(("sync_scale", sc, dict(per_tlc=1, tlc_jobs=4, max_slots=300)))
    batches.append(("sync_strace", out2, dict(per_tlc=2, tlc_jobs=8, max_slots=300, strace=True, op_timeout=60)))
    return batches


def wl_fault(tier, seed):
    import random
    rng = random.Random(seed)
    out = []
    i = 0
    for shape in ("val", "key", "htx"):
        ths = gen.fault_thresholds(shape, 0 if tier == "quick" else 24, rng)
        if tier == "quick":
            ths = rng.sample(ths, 10)
        for t in ths:
            syncop = ["flush", "sync_all", "sync_data", "db_sync_all", "db_sync_data"][i % 5]
            second = None
            if syncop.startswith("db_") or i % 4 == 0:
                # second map: visited after "m" (string registry / later name) or before it
                second = [("z", "string"), ("a", "bytes"), ("n", "u64"), ("m2", "bytes")][i % 4]
            out.append(gen.gen_fault(seed * 1000 + 400 + i, idbase=i * IDSTEP, shape=shape, threshold=t, syncop=syncop,
                                     second=second, name="fault_%s_%d" % (shape, t)))
            i += 1
    # the same call is retried while the condition persists and after it is lifted, with updates in between
    # (the failing file is the second or third one written: the first one was complete before the error)
    for j in range(6 if tier == "quick" else 60):
        shape = ("key", "htx", "val")[j % 3]
        t = rng.choice([1000, 4096, 131072, 200000] if shape != "val" else [192, 1000, 131072])
        out.append(gen.gen_fault(seed * 1000 + 470 + j, idbase=i * IDSTEP, shape=shape, threshold=t, syncop=("flush", "sync_data", "flush", "sync_all")[j % 4],
                                 retry=True, name="faultretry_%s_%d_%d" % (shape, t, j)))
        i += 1
    return [("fault", out, dict(per_tlc=4 if tier == "quick" else 8, tlc_jobs=8, max_slots=300))]


def wl_params(tier, seed):
    import random
    rng = random.Random(seed)
    nhist, nconf = (3, 4) if tier == "quick" else (10, 12)
    out = []
    i = 0
    for h in range(nhist):
        hseed = seed * 1000 + 600 + h
        for c in range(nconf):
            bk = rng.choice(gen.BUCKET_PARAMS_Q) if not (tier == "thorough" and c == 0 and h < 2) else ["Default"]
            bufs = [rng.choice(gen.BUF_PARAMS) for _ in range(3)]
            reopen = rng.choice(gen.REOPEN_PARAMS)
            out.append(gen.gen_params(hseed, idbase=i * IDSTEP, nops=180 if tier == "quick" else 500, buckets=bk, bufs=bufs, reopen=reopen,
                                      kt=["bytes", "u64", "string", "i64", "vu64"][h % 5], name="params_h%d_c%d" % (h, c)))
            i += 1
    # dedicated scenario of known finding D9: a PerMille(<1000) buffer on a file that passes one chunk
    out.append(gen.gen_params(seed * 1000 + 699, idbase=i * IDSTEP, nops=120, buckets=["BucketsSize", 8],
                              bufs=[["PerMille", 1000], ["PerMille", 500], ["PerMille", 1000]], tag="D9_permille_lt_1000", name="params_d9"))
    batches = [("params", out, dict(per_tlc=3 if tier == "quick" else 6, tlc_jobs=8, max_slots=300, op_timeout=10))]
    # a table of two buckets: colliding records that exactly fill their slots are relocated and their chains
    # relinked - what a default-sized table never does, and what must not be observable either
    batches.append(("reloc", reloc_batch(seed + 9, 3 if tier == "quick" else 16, 100 if tier == "quick" else 300, base=500, kts=("bytes", "string")),
                    dict(per_tlc=1, tlc_jobs=3 if tier == "quick" else 8)))
    if tier == "thorough":
        # the crate rebuilt under its alternative cargo feature sets; contract-level validation (the
        # decoder knows the default layout only: without htx_bitmap there is no occupancy bitmap)
        for fi, feat in enumerate(("feat_nobitmap", "feat_remhalf", "feat_nopin", "feat_debug")):
            fo = []
            for h in range(4):
                bk = rng.choice(gen.BUCKET_PARAMS_Q)
                bufs = [rng.choice(gen.BUF_PARAMS) for _ in range(3)]
                fo.append(gen.gen_params(seed * 1000 + 650 + h, idbase=(400 + fi * 10 + h) * IDSTEP, nops=400, buckets=bk, bufs=bufs,
                                         reopen=rng.choice(gen.REOPEN_PARAMS), kt=gen.KTS[h % 2], name="params_%s_%d" % (feat, h), decode=False))
            batches.append(("params_" + feat, fo, dict(per_tlc=2, tlc_jobs=4, op_timeout=10, features=feat)))
    return batches


def wl_multi(tier, seed):
    cnt, nops = (6, 200) if tier == "quick" else (60, 800)
    out = [gen.gen_multi(seed * 1000 + 700 + i, idbase=i * IDSTEP, nops=nops, nmaps=2 + i % 4, name="multi_%d" % i) for i in range(cnt)]
    many = [gen.gen_manymaps(seed * 1000 + 780 + i, idbase=(100 + i) * IDSTEP, count=20 if tier == "quick" else 40, kt=gen.KTS[(i + 1) % 5], name="manymaps_%d" % i)
            for i in range(2 if tier == "quick" else 10)]
    return [("multi", out, dict(per_tlc=2 if tier == "quick" else 5, tlc_jobs=8, max_slots=300)),
            ("manymaps", many, dict(per_tlc=1, tlc_jobs=4, max_slots=300))]


RO_SIZES = [("BucketsSize", 1), ("BucketsSize", 4), ("BucketsSize", 8), ("BucketsSize", 16), ("Capacity", 12), ("Capacity", 24), ("BucketsSize", 32),
            ("BucketsSize", 64), ("BucketsSize", 128), ("BucketsSize", 256), ("BucketsSize", 2048), ("BucketsSize", 65536)]


def wl_readonly(tier, seed):
    out = []
    i = 0
    reps = 1 if tier == "quick" else 6
    for rep in range(reps):
        for nb in RO_SIZES:
            for state in (("empty", "dense") if tier == "quick" and i % 2 else ("empty", "emptied", "dense", "sparse")):
                out.append(gen.gen_readonly(seed * 1000 + 800 + i, idbase=i * IDSTEP, nb=nb, state=state, kt=gen.KTS[i % 5],
                                            nro=40 if tier == "quick" else 120, name="ro_%s%d_%s" % (nb[0][0], nb[1], state)))
                i += 1
    # lowest occupied bucket at a group border, every choice of the border (bytes and string keys: their hashes reach every bucket)
    for j in range(7 if tier == "quick" else 28):
        nb = (("BucketsSize", 16), ("BucketsSize", 128), ("BucketsSize", 1024), ("BucketsSize", 64))[j % 4]
        out.append(gen.gen_readonly(seed * 1000 + 870 + j, idbase=i * IDSTEP, nb=nb, state="edge", kt=("bytes", "string")[j % 2],
                                    nro=30 if tier == "quick" else 80, name="ro_edge%d" % j))
        i += 1
    # every third history in the profile without debug assertions
    fast = out[2::3]
    rest = [x for i, x in enumerate(out) if i % 3 != 2]
    return [("readonly", rest, dict(per_tlc=6, tlc_jobs=8, max_slots=300)),
            ("readonly_fast", fast, dict(per_tlc=6, tlc_jobs=8, max_slots=300, profile="fast")),
            # lookups followed by updates of the same chain: what a lookup remembers must not change what the updates do
            ("reloc", reloc_batch(seed + 6, 3 if tier == "quick" else 12, 100 if tier == "quick" else 300, base=400), dict(per_tlc=1, tlc_jobs=3 if tier == "quick" else 6))]


def wl_twice(tier, seed):
    import random
    rng = random.Random(seed)
    cnt, nops = (8, 120) if tier == "quick" else (60, 600)
    out = []
    for i in range(cnt):
        nb = rng.choice([("BucketsSize", 1), ("BucketsSize", 16), ("BucketsSize", 32), ("BucketsSize", 64), ("Capacity", 100), ("BucketsSize", 1024)])
        bufs = None if i % 2 == 0 else [rng.choice(gen.BUF_PARAMS) for _ in range(3)]
        out.append(gen.gen_twice(seed * 1000 + 900 + i, idbase=i * IDSTEP, nops=nops, nb=nb, kt=gen.KTS[i % 5], bufs=bufs, name="twice_%d" % i,
                                 nkeys=20 if i % 2 else 3, tail=(i % 4 == 0), same_process=(i % 3 == 1), interleaved=(i % 4 == 3),
                                 reloc=(i % 4 in (1, 2))))
    return [("twice", out, dict(per_tlc=2 if tier == "quick" else 5, tlc_jobs=8, max_slots=300))]


def wl_wrongtype(tier, seed):
    if tier == "quick":
        return [("wrongtype", [gen.gen_wrongtype(seed * 1000 + 1, idbase=0, sigvals=4, name="wrongtype")], dict(per_tlc=1, tlc_jobs=2, op_timeout=40)),
                # the refusal must not live in a debug assertion: the same scenarios in the profile without them
                ("wrongtype_fast", [gen.gen_wrongtype(seed * 1000 + 2, idbase=IDSTEP, sigvals=2, name="wrongtype_fast")], dict(per_tlc=1, tlc_jobs=2, op_timeout=40, profile="fast"))]
    out = [gen.gen_wrongtype(seed * 1000 + 1 + i, idbase=i * IDSTEP, sigvals=255 if i == 0 else 16, name="wrongtype_%d" % i) for i in range(4)]
    return [("wrongtype", out, dict(per_tlc=1, tlc_jobs=4, op_timeout=40)),
            ("wrongtype_fast", [gen.gen_wrongtype(seed * 1000 + 9, idbase=9 * IDSTEP, sigvals=8, name="wrongtype_fast")], dict(per_tlc=1, tlc_jobs=2, op_timeout=40, profile="fast"))]


def wl_bulk(tier, seed):
    cnt, nops = (8, 150) if tier == "quick" else (60, 700)
    out = [gen.gen_bulk(seed * 1000 + 20 + i, idbase=i * IDSTEP, nops=nops, kt=gen.KTS[i % 5],
                        nb=[("BucketsSize", 16), ("BucketsSize", 1), ("Capacity", 200)][i % 3], name="bulk_%d" % i) for i in range(cnt)]
    return [("bulk", out, dict(per_tlc=2 if tier == "quick" else 5, tlc_jobs=8, max_slots=300))]


def wl_conv(tier, seed):
    extra = 10000 if tier == "quick" else 300000
    per = 6000
    convs = [gen.gen_conv(seed * 1000 + 40 + i, idbase=i * IDSTEP, extra=min(per, extra - i * per), name="conv_%d" % i)
             for i in range(max(1, extra // per))]
    typed = []
    cnt = 9 if tier == "quick" else 60
    for i in range(cnt):
        kt = ["u64", "i64", "vu64"][i % 3]
        nb = [("BucketsSize", 1), ("BucketsSize", 2), ("Capacity", 40)][(i // 3) % 3]
        typed.append(gen.gen_typed(seed * 1000 + 60 + i, idbase=(100 + i) * IDSTEP, kt=kt, nb=nb, nops=200 if tier == "quick" else 600, name="typed_%s_%d" % (kt, i)))
    # byte/string keys that collide, fill their slots exactly and are relocated (same key <=> same bytes
    # must survive record relocation and slot reuse)
    rel = reloc_batch(seed + 11, 4 if tier == "quick" else 24, 150 if tier == "quick" else 400, base=300, kts=("string", "bytes"))
    same = [gen.gen_samehash(seed * 1000 + 90 + i, idbase=(350 + i) * IDSTEP, kt=["bytes", "string"][i % 2], nops=150 if tier == "quick" else 600,
                             name="samehash_%d" % i) for i in range(4 if tier == "quick" else 24)]
    return [("conv", convs, dict(per_tlc=1, tlc_jobs=8)), ("typed", typed, dict(per_tlc=3, tlc_jobs=8)),
            ("samehash", same, dict(per_tlc=2, tlc_jobs=8)), ("reloc", rel, dict(per_tlc=1, tlc_jobs=8))]


def wl_golden(tier, seed):
    import json, os
    checks, rewrites = [], []
    i = 0
    for kt in gen.KTS:
        for kind in gen.GOLDEN_KINDS:
            d = "%s/golden/%s-%s" % (VERIF_ROOT, kt, kind)
            exp = json.load(open(d + "/expected.json"))
            checks.append(gen.gen_golden_check(seed * 1000 + i, d, exp, nops=60 if tier == "quick" else 2000, name="golden_%s_%s" % (kt, kind)))
            rewrites.append(gen.gen_golden_rewrite(kind, kt, d))
            i += 1
    # every history has its own id space already (golden tables); one history per TLC start
    return [("golden", checks, dict(per_tlc=1, tlc_jobs=8, max_slots=400)),
            ("rewrite", rewrites, dict(per_tlc=1, tlc_jobs=8, max_slots=400)),
            ("l2", l2_batch(seed + 9, 4 if tier == "quick" else 30, nops=60 if tier == "quick" else 200, base=700), dict(per_tlc=2, tlc_jobs=6)),
            # length fields of four bytes (values above 2 MiB) written and read back
            ("l1big", [gen.gen_l1(seed * 1000 + 88, idbase=901 * IDSTEP, nops=80 if tier == "quick" else 400, nkeys=12, nb=("BucketsSize", 8), kt="bytes", big=2,
                                  reopen_every=30, name="l1big")], dict(per_tlc=1, tlc_jobs=1, max_slots=300, op_timeout=60, xmx="4g")),
            # the released encoding of integer keys (C12.key_bytes)
            ("conv", [gen.gen_conv(seed * 1000 + 77, idbase=900 * IDSTEP, extra=300 if tier == "quick" else 3000, name="conv")], dict(per_tlc=1, tlc_jobs=1))]


def wl_layout(tier, seed):
    import random
    rng = random.Random(seed)
    KOFF = ([192, 16376, 16384, 2097144, 2097152, 268435448, 268435456, 2147483640], [0, 192, 16384, 2097152, 268435456])
    if tier == "quick":
        wins = [(0, 70000)] + [(b - 300, b + 300) for b in (131072, 1 << 20, (1 << 21), (1 << 24) - 600)]
        probe = gen.gen_probe(wins, 3000, ([192, 16384, 2097152], [0, 192, 16384]), chunk=100000)
        lens = sorted(set(list(range(0, 260)) + rng.sample(range(260, 4200), 60) + [1017, 1018, 1019, 1020, 1021, 1022, 1023, 4093, 4094, 4095, 4096]))
        big = [131060 + i for i in range(0, 20, 3)] + [(1 << 21) - 4, (1 << 21) - 3, (1 << 21) + 1]
    else:
        probe = gen.gen_probe([(0, 1 << 24)], 65536, KOFF)
        lens = list(range(0, 4201))
        big = [x + d for x in (4096, 131072, 1 << 20, 1 << 24) for d in range(-40, 41, 1) if x + d <= (1 << 24)]
    per = 120
    sweeps = [gen.gen_sweep(seed * 1000 + i, idbase=(i + 1) * IDSTEP, lens=lens[j:j + per], name="sweep_%d" % i)
              for i, j in enumerate(range(0, len(lens), per))]
    bigs = [gen.gen_sweep(seed * 1000 + 500 + i, idbase=(500 + i) * IDSTEP, lens=big[j:j + 12], name="sweepbig_%d" % i)
            for i, j in enumerate(range(0, len(big), 12))]
    inpl = [gen.gen_inplace(seed * 1000 + 900 + i, idbase=(800 + i) * IDSTEP, slots=sl, name="inplace_%d" % i)
            for i, sl in enumerate([[16, 24, 32, 48], [64, 128, 256], [384, 1024, 1152], [16512]] if tier == "quick" else
                                   [[16, 24, 32], [48, 64, 80], [96, 112, 128], [256, 384], [512, 640], [768, 896], [1024, 1152], [1280, 2048], [16512], [16640, 131200]])]
    if tier == "quick":
        klens = [sorted(set(list(range(0, 40)) + rng.sample(range(40, 1100), 25) + [1009, 1010, 1011, 1012, 1013])),
                 [4080, 16370, 65535, 65536, 130900, 131040, 131072, 200000]]
    else:
        klens = [list(range(a, a + 150)) for a in range(0, 1200, 150)] + \
                [[x + d for d in range(-12, 13, 3)] for x in (4096, 16384, 65536, 131072 - 60, 131072, 1 << 20, (1 << 21) + 100)]
    ksw = [gen.gen_keysweep(seed * 1000 + 700 + i, idbase=(900 + i) * IDSTEP, klens=kl, name="keysweep_%d" % i) for i, kl in enumerate(klens)]
    return [("probe", [probe], dict(per_tlc=1, tlc_jobs=1, xmx="6g", tlc_timeout=7200)),
            ("keysweep", ksw, dict(per_tlc=1, tlc_jobs=8, xmx="4g", op_timeout=60)),
            ("inplace", inpl, dict(per_tlc=1, tlc_jobs=8, op_timeout=60)),
            ("sweep", sweeps, dict(per_tlc=1, tlc_jobs=8)),
            ("sweepbig", bigs, dict(per_tlc=1, tlc_jobs=8, xmx="4g", op_timeout=60)),
            # the link of a chain predecessor widens from 2 to 3 bytes (successor above 128 KiB of the key file)
            ("linkwidth", [gen.gen_linkwidth(seed * 1000 + 40 + i, idbase=(950 + i) * IDSTEP, pklen=kl, name="linkwidth_%d" % kl)
                           for i, kl in enumerate((10, 18, 26, 11) if tier == "quick" else (10, 18, 26, 42, 58, 11, 12, 19, 74))], dict(per_tlc=1, tlc_jobs=4, op_timeout=60)),
            # records that exactly fill their slot, in chains whose links change width (relocation, unlinking)
            ("reloc", reloc_batch(seed + 4, 4 if tier == "quick" else 24, 120 if tier == "quick" else 400, base=600), dict(per_tlc=1, tlc_jobs=4 if tier == "quick" else 8))] \
        + wl_core(tier, seed)[:1] + [("l2large", large_batch(seed + 3, 3 if tier == "quick" else 12, 120 if tier == "quick" else 300, base=620), dict(per_tlc=1, tlc_jobs=3 if tier == "quick" else 6))]


def _mc(module, cfg, **kw):
    d = dict(module=module, cfg=cfg, workers=kw.pop("workers", 8))
    d.update(kw)
    return d


def mc_buf(tier, witness=None):
    q = [_mc("AbyBuf.tla", "MCBuf_q.cfg", workers=12)]
    if witness == "pinned":
        q.append(_mc("AbyBuf.tla", "MCBuf_pinned.cfg", workers=2, witness="FlushDurable"))
    if witness == "clearearly":
        q.append(_mc("AbyBuf.tla", "MCBuf_clearearly.cfg", workers=2, witness="FlushErrKeeps"))
    if tier == "thorough":
        q.append(_mc("AbyBuf.tla", "MCBuf_t.cfg", workers=12, xmx="16g", timeout=3600))
    return q


def mc_db(tier, d8=False):
    # AbyDb: the contract (one state per name); AbyReg: the design under it (buffered instances, five registries):
    # one instance per name as long as every getter consults its registry and the signatures are distinct
    q = [_mc("MCDb.tla", "MCDb_q.cfg", workers=12), _mc("MCReg.tla", "MCReg_q.cfg", workers=8),
         _mc("MCReg.tla", "MCReg_nolookup.cfg", workers=2, witness="OneInstance"),
         _mc("MCReg.tla", "MCReg_close_w.cfg", workers=2, witness="CloseDurable")]
    if d8:
        q.append(_mc("MCDb.tla", "MCDb_d8.cfg", workers=2, witness="TypeSafe"))
        q.append(_mc("MCReg.tla", "MCReg_d8.cfg", workers=2, witness="OneInstance"))
    if tier == "thorough":
        q.append(_mc("MCDb.tla", "MCDb_t.cfg", workers=12, xmx="16g", timeout=3600))
        q.append(_mc("MCReg.tla", "MCReg_t.cfg", workers=12, xmx="16g", timeout=3600))
    return q


MC_STORE_Q = [dict(module="MCStore_q.tla", cfg="MCStore_q.cfg", workers=8)]
MC_LAYOUT = lambda tier: [_mc("MCLayout.tla", "MCLayout_q.cfg", workers=2)] + ([_mc("MCLayout.tla", "MCLayout_t.cfg", workers=2, xmx="8g", timeout=3600)] if tier == "thorough" else [])


def wl_space(tier, seed):
    if tier == "quick":
        cyc = [gen.gen_cyclic(seed * 1000 + 70 + i, idbase=(950 + i) * IDSTEP, rounds=8, shape=sh, name="cyclic_" + sh)
               for i, sh in enumerate(("mixed", "large"))]
    else:
        cyc = [gen.gen_cyclic(seed * 1000 + 70 + i, idbase=(950 + i) * IDSTEP, rounds=50, shape=sh, name="cyclic_%s_%d" % (sh, i))
               for i, sh in enumerate(("mixed", "large", "small", "mixed", "large", "small"))]
    # one bucket chain of thousands of entries (scale): every key put again, len and the slot partition checked
    lc = [gen.gen_longchain(seed * 1000 + 60, idbase=960 * IDSTEP, nkeys=4500 if tier == "quick" else 12000, name="longchain")]
    return [("cyclic", cyc, dict(per_tlc=1, tlc_jobs=6)),
            ("longchain", lc, dict(per_tlc=1, tlc_jobs=1, max_slots=300, op_timeout=60, xmx="4g"))] + wl_core(tier, seed)


PLANS = {
    "C12": dict(attr=["C12.", "C05.", "C06.", "C09.fits", "C15.bytes", "C01.result", "C01.outcome"], mc=lambda t: [_mc("MCHash.tla", "MCHash.cfg", workers=2)] + MC_STORE_Q, workloads=wl_golden, assumptions=COMMON_ASSUME),
    "C13": dict(attr=["C13."], mc=lambda t: mc_db(t, d8=True), proofs=["AbyRegProofs.tla"], workloads=wl_wrongtype, assumptions=COMMON_ASSUME),
    "C14": dict(attr=["C14.", "C01.result", "C02.content", "C01.outcome"], mc=lambda t: [_mc("MCBulk.tla", "MCBulk.cfg", workers=2)], workloads=wl_bulk, assumptions=COMMON_ASSUME),
    "C10": dict(attr=["C10.", "C14.bulk_get", "C14.bulk_delete", "C01.result", "C04.items", "C05.content", "C05.nodup", "C02.content", "C01.outcome"], mc=lambda t: [_mc("MCCodec.tla", "MCCodec.cfg", workers=2)], workloads=wl_conv, assumptions=COMMON_ASSUME),
    "C07": dict(attr=["C07.", "C01.", "C02.content", "C04."], mc=lambda t: mc_buf(t) + MC_LAYOUT("quick") + [_mc("MCScan.tla", "MCScan_all8.cfg"), _mc("MCScan.tla", "MCScan_n32.cfg")], workloads=wl_params, assumptions=COMMON_ASSUME),
    "C11": dict(attr=["C11.", "C01.result", "C01.outcome", "C04.", "C02.content"], mc=lambda t: mc_db(t), proofs=["AbyRegProofs.tla"], workloads=wl_multi, assumptions=COMMON_ASSUME),
    "C15": dict(attr=["C15.", "C02.content", "C05.content", "C05.count", "C04.items", "C04.count"], mc=lambda t: MC_STORE_Q + [_mc("MCScan.tla", "MCScan_all8.cfg"), _mc("MCScan.tla", "MCScan_n32.cfg")], workloads=wl_readonly, assumptions=COMMON_ASSUME),
    "C18": dict(attr=["C18."], mc=lambda t: MC_STORE_Q, workloads=wl_twice, assumptions=COMMON_ASSUME),
    "C02": dict(attr=["C02.", "C01.result", "C01.outcome", "C05.content"], mc=lambda t: mc_buf(t) + mc_db(t), proofs=["AbyRegProofs.tla"], workloads=wl_reopen, assumptions=COMMON_ASSUME),
    "C03": dict(attr=["C03."], mc=lambda t: mc_buf(t, "pinned"), proofs=["AbyBufProofs.tla"], workloads=wl_sync, assumptions=COMMON_ASSUME),
    "C16": dict(attr=["C16.", "C03.outcome", "C01.result"], mc=lambda t: mc_buf(t, "clearearly"), proofs=["AbyBufProofs.tla"], workloads=wl_fault, assumptions=COMMON_ASSUME),
    "C04": dict(attr=["C04.", "C01.outcome"], mc=mc_scan, workloads=wl_iter, assumptions=COMMON_ASSUME),
    "C08": dict(attr=["C08.", "C01.result", "C01.outcome", "C05.content", "C05.count"], mc=mc_reloc, workloads=wl_reloc, assumptions=COMMON_ASSUME),
    "C01": dict(attr=["C01."], mc=lambda t: mc_store(t), workloads=wl_core, assumptions=COMMON_ASSUME),
    "C05": dict(attr=["C05."], mc=lambda t: mc_store(t), workloads=wl_core, assumptions=COMMON_ASSUME),
    "C06": dict(attr=["C06."], mc=lambda t: mc_store(t) + [_mc("MCStoreB_q.tla", "MCStoreB.cfg"), _mc("MCStoreB_q.tla", "MCStoreB_large.cfg", workers=2, witness="LargeBoundFalse")], workloads=wl_space, assumptions=COMMON_ASSUME),
    "C09": dict(attr=["C09.", "C01.result", "C01.outcome", "C04.items", "C04.count"], mc=lambda t: MC_LAYOUT(t) + mc_store(t), proofs=["AbyLayoutProofs.tla"],
                workloads=wl_layout, assumptions=COMMON_ASSUME),
    "C17": dict(attr=["C17.", "C06.stats_terminate"], mc=lambda t: mc_store(t),
                workloads=lambda tier, seed: [("statsync", [gen.gen_stats_sync(seed * 1000 + 30 + i, idbase=(970 + i) * IDSTEP, rounds=12 if tier == "quick" else 60, name="statsync_%d" % i)
                                                            for i in range(3 if tier == "quick" else 12)], dict(per_tlc=1, tlc_jobs=4))] + wl_core(tier, seed), assumptions=COMMON_ASSUME),
}


def _with_mix(pid, orig):
    """every check also runs a few histories of the all-features generator (gen_mix) - with seeds of its own,
    so that the 18 checks together explore 18 times as many of them - and reports the conjuncts attributed to it"""
    idx = int(pid[1:])

    def wl(tier, seed):
        cnt, nops = (4, 220) if tier == "quick" else (20, 400)
        mix = [gen.gen_mix(seed * 100000 + idx * 1000 + i, idbase=(1500 + i) * IDSTEP, nops=nops, name="mix_%d" % i) for i in range(cnt)]
        # half of them in the profile WITHOUT debug assertions (what a release user runs: a side effect hidden in a
        # debug_assert! disappears there)
        h = len(mix) // 2
        o = dict(per_tlc=1 if tier == "quick" else 5, tlc_jobs=4 if tier == "quick" else 8, max_slots=300)
        return orig(tier, seed) + [("mix", mix[:h], o), ("mix_fast", mix[h:], dict(o, profile="fast"))]
    return wl


for _pid in list(PLANS):
    PLANS[_pid]["workloads"] = _with_mix(_pid, PLANS[_pid]["workloads"])

